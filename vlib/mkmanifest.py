#!/usr/bin/env python3
"""Regenerates /verif/MANIFEST.json from the per-property table below.
A property is claimed only when CLAIMS has an entry for it; every other property is listed
under not_applicable with its reason."""
import json
import os

VERIF = os.path.dirname(os.path.dirname(os.path.abspath(__file__)))

TECH = "CBMC 6.11 code contracts (goto-instrument --dfcc) enforced per function on the real /repo sources"

CLAIMS = {
    "C01": {
        "text": "Every operation of channel.c is enforced against a contract over the abstract view 'unread path of reader i' (at most two physical intervals, normalised): write_map keeps every path, write_unmap appends the written region at the end of every path, abort adds nothing, read_map returns exactly the first interval and an empty slice only when the path is empty, read_unmap removes exactly min(consumed, held) bytes from the front; all preserve the monitor invariant (asserted at every lock release and wait) and touch no other reader's slot. Sizes are symbolic up to 2^40, 0..8 readers by 8-way expansion, the writer's wait loop is closed by a loop contract with an environment-havoc wait stub, so all interleavings reduce to sequences of critical sections; induction over the history gives the property.",
        "note": "Assumes pthread mutual exclusion / cond-var semantics (stubs implement the monitor rule), a single writer per channel, capacity <= 2^40, lap counter < 2^62, memory_alloc succeeds. The induction from per-operation contracts to 'the reader obtains exactly the committed byte sequence' is a paper argument.",
        "design": "5/C01",
    },
    "C02": {
        "text": "next_write (with reader_min and cursor_cmp under their own contracts, replaced modularly) is proved to grant only regions inside the buffer that overlap no unread byte of any reader, to keep every reader at most one lap behind and to reset readers only when all are drained at the head; channel_write_map returns exactly [head', mapped') and the invariant (which contains mapped <= p_i for readers one lap behind) makes the guarantee stable until the commit; read_map hands out a slice inside the unread path with a cursor satisfying MAPPED_OK, and every writer operation is proved to preserve MAPPED_OK of an arbitrary other mapped reader (non-interference).",
        "note": "Same trusted base as C01. The callers' single-writer discipline is a precondition here and is checked at the call sites in the source/filter units. reader_min's loop is closed by complete unwinding (n <= 8 from the invariant, unwinding assertion on).",
        "design": "5/C02",
    },
    "C03": {
        "text": "Safety half of 'no lost wake-up', all machine-checked on the real code: the writer sleeps only inside a re-check loop (loop contract) while writes are accepted; it returns NULL whenever it observes the refuse flag after a wake-up; a ghost lock/notify discipline automaton in the platform stubs proves that every change that can enable the writer (a reader hold moving, the refuse signal) is written, then published by a lock release, then notified, in read_map, read_unmap and accept_writes; loop-free full-domain progress lemmas: next_write finds space whenever all readers are drained at the head and the request is below the capacity, and three map/unmap rounds drain any reader into that state.",
        "note": "Not decided by this technique: fair scheduling and termination of the wait (liveness); pthread_cond semantics are assumed. The meta-theorem 'discipline implies no lost wake-up' is a paper argument (DESIGN 4.2).",
        "design": "5/C03",
    },
    "C11": {
        "text": "Every HAL wrapper in camera.c, storage.c and driver.c carries a DFCC-enforced contract against a ghost protocol driver with nondeterministic return codes: AGREE(HAL state, driver typestate) is preserved by each call, each call makes exactly the legal driver calls, one close per open on every path, no access to a freed device. All functions are loop-free, so the proofs are unbounded; induction over the call sequence gives all finite histories.",
        "note": "Assumes: a driver whose open() fails opened nothing; driver.close releases the object; storage drivers declare their own state (a Running answer from set counts as started); device_manager_get_driver (C++) stubbed; CBMC/goto-cc semantics.",
        "design": "5/C11",
    },
    "C13": {
        "text": "copy_string is enforced (DFCC) against its full contract for symbolic lengths up to 2^30, NULL/empty/borrowed/owned/unterminated strings and failing allocations: deep copy, NUL at the recorded length, source untouched, no aliasing, block accounting on a ghost live-block counter (malloc/realloc/free routed through counting wrappers) so that every replaced block is released exactly once and borrowed memory never. Every public operation (init, set_uri, set_external_metadata, set_access_key_and_secret, set_dimension, set_enable_multiscale, copy, destroy) is checked against a contract stating well-formedness preserved, exactly the named field changed, deep and complete copies, source bit-identical and still alive, and block accounting. Well-formedness preservation plus per-operation leak freedom gives all init/set/copy/destroy sequences by induction.",
        "note": "The operations that walk the dimension array (copy, set_dimension, destroy, init) are case-split on 0..2 dimensions with literal counts (CBMC's memset model mis-handles a symbolic element count and a symbolic count ran out of memory) and use 2-byte string blocks: those units are reported under 'bounded', not counted as proved; in copy and set_dimension copy_string is replaced by a stub contract that is itself proved to satisfy CONTRACT_copy_string. Contracts of the top-level operations are checked by assume/assert around the call rather than DFCC write-set instrumentation (which ran out of memory). Self-copy (dst == src) is excluded by precondition.",
        "design": "5/C13",
    },
    "C14": {
        "text": "file_write is enforced (DFCC) with a loop contract over its retry loop against a ghost kernel whose pwrite returns an error, zero, or any short count: on success every byte of the packet is in the file at offset+index, nothing outside the packet is written, and the lexicographic variant (remaining, retries) proves the loop terminates; file_create is proved to leave an empty file (no stale tail). raw_start/raw_append/raw_stop/raw_set are checked against contracts over a ghost file (stub contracts of the file functions carrying the same clauses): a packet lands at [offset, offset+n) and the offset advances by n, each start begins at offset 0 of the file named by the stored URI, the stored URI is the plain path for both spellings. Packet sizes and offsets are symbolic (2^40 / 2^50); induction over set/start/append*/stop cycles gives 'file == concatenation of the appended packets'.",
        "note": "Kernel behaviour is modelled (ghost kernel); the URI unit is bounded to 24-byte strings; raw.c entry points are checked by assume/assert around the call with stub contracts for platform/props callees whose real bodies are verified in their own units. The final concatenation argument is an induction on paper.",
        "design": "5/C14",
    },
    "C16": {
        "text": "A ghost descriptor-ownership model (which descriptor the device opened, whether it is open) sits in the stubs of open/flock/ftruncate/pwrite/close and of file_create/file_write/file_close: every close or write on a descriptor the device does not own and hold open is a failed obligation. file_create closes a descriptor whose lock or truncate failed exactly once and reports failure; file_close closes once; raw_init/start/stop/append/destroy preserve the representation invariant 'is_open iff the ghost file is open and fid is that descriptor', so every life-cycle history (never started, repeated start/stop, close while running) closes exactly what it opened exactly once; a failing write makes raw_append leave the running state within the same call with one write attempt; the HAL turns any non-running answer into Device_Err (C11 units). trash has no descriptors; its entry points are checked directly.",
        "note": "Not claimed: tiff and tiff-json (C++: tiff.cpp, side-by-side-tiff.cpp cannot be parsed by CBMC), including their unbounded stop()/write_() recursion. trash_append's frame walk and the raw life-cycle history unit are bounded stand-ins (K=4 frames; 5 calls) reported under 'bounded'.",
        "design": "5/C16",
    },
}

NOT_YET = "no contract units registered yet in this commit (under construction; see DESIGN.md sec. 11)"

NA = {
    "C15": "tiff.cpp / side-by-side-tiff.cpp are C++ (std::string, lambdas, std::filesystem, inheritance from the C struct); CBMC's C++ front end cannot parse them and a C look-alike would be a model, which this technique excludes (DESIGN.md C15)",
}


def main():
    props = [json.loads(l) for l in open(os.path.join(VERIF, "properties.jsonl"))]
    checks = []
    na = []
    for p in props:
        pid = p["id"]
        if pid in CLAIMS:
            c = CLAIMS[pid]
            checks.append({
                "property_id": pid,
                "quick_cmd": "./check %s --tier quick" % pid,
                "thorough_cmd": "./check %s --tier thorough" % pid,
                "evidence_file": "/verif/evidence/%s.json" % pid,
                "replay_cmd_template": "./check %s --replay {path}" % pid,
                "engine": "cbmc-dfcc",
                "level_claimed": {"category": c.get("category", "proof"), "text": c["text"],
                                  "design_ref": "DESIGN.md sec. " + c["design"]},
                "level_note": c["note"],
                "technique": c.get("technique", TECH),
            })
        else:
            na.append({"property_id": pid, "reason": NA.get(pid, NOT_YET)})
    m = {
        "version": 1,
        "setup_cmd": "true",
        "hooks": {
            "guard": "ACQUIRE_COMMON_VERIF",
            "enable": "unused: contracts, loop invariants and stubs are attached from /verif (prior declarations, --loop-contracts-file); /repo carries no hooks, so guard-off is the plain build",
            "baseline_off_cmd": "cmake --build /repo/_build && ctest --test-dir /repo/_build -j8 --timeout 900",
            "source_commits": [],
            "add_only": True,
        },
        "engines": [{"name": "cbmc-dfcc", "path": "/verif/vlib",
                     "serves_properties": sorted(CLAIMS),
                     "kind_free_text": "contract-based deductive verification: goto-cc on harnesses that #include the real .c files, goto-instrument --dfcc (function + loop contracts), cbmc SAT back end, native ASan replay of counterexamples"}],
        "checks": checks,
        "not_applicable": na,
        "notes": "Exit codes: 0 all obligations discharged; 1 VIOLATION; 2 tooling (timeout, locator, vacuity) - never a violation. known_findings.json lists recorded findings and fixed defects.",
    }
    json.dump(m, open(os.path.join(VERIF, "MANIFEST.json"), "w"), indent=1)


if __name__ == "__main__":
    main()
