/* C06/C07/C08 (and the wiring clause of C04): the real
 *   /repo/acquire-video-runtime/src/acquire.c
 * together with the real controller code of source.c, sink.c and filter.c (configure /
 * start / destroy / init; the worker thread bodies are verified in their own units and
 * are never executed here: thread_create only records ownership).
 * Stub contracts: camera_* / storage_* (clauses enforced in contracts/hal) with a ghost
 * device typestate and an ownership rule, channel_* on the sink channel (clauses
 * enforced in contracts/channel) with an abstract monitor reader, thread_* / event_*,
 * device_manager_* (C++), reserve_image_shape. All files are #included unmodified. */
#include "verif.h"
#include "acquire.h"
#include "device/hal/camera.h"
#include "device/hal/storage.h"
#include "device/hal/device.manager.h"
#include "runtime/video.h"
#include "runtime/vfslice.h"
#include "runtime/throttler.h"
#include "runtime/frame_iterator.h"

#include <stdlib.h>
#include <string.h>

void
aq_logger(int is_error, const char* file, int line, const char* function, const char* fmt, ...)
{
}
void
logger_set_reporter(void (*reporter)(int, const char*, int, const char*, const char*))
{
}
const char*
device_state_as_string(enum DeviceState s)
{
    return "state";
}

/* ================================================================== real code */
#define is_equal source_is_equal
#include "runtime/source.c"
#undef is_equal
#undef LOG
#undef LOGE
#undef TRACE
#undef ECHO
#undef EXPECT
#undef CHECK
#define is_equal sink_is_equal
#include "runtime/sink.c"
#undef is_equal
#undef L
#undef LOG
#undef LOGE
#undef TRACE
#undef EXPECT
#undef CHECK
#define slice_size_bytes filter_slice_size_bytes
#include "runtime/filter.c"
#undef slice_size_bytes
#undef LOG
#undef LOGE
#undef TRACE
#undef ECHO
#undef EXPECT
#undef CHECK
#include "acquire.c"


/* ------------------------------------------------------------------ ghost devices */
/* A device is a heap object of its HAL type, freed by close (any later use is a memory error).
 * (An earlier version wrapped both kinds in one union with ghost counters: every state update
 * then became a byte-level update of the whole 300-byte union and the formulas grew to 10^7
 * variables.) Objects are zeroed by struct assignment, not memset, for the same reason. */
static const struct Camera zero_camera;
static const struct Storage zero_storage;

static struct acq_ghost
{
    int cam_opens, cam_closes, sto_opens, sto_closes;
    int illegal; /* protocol violations are asserted where they occur; this counts them      */
    /* threads: [stream][0 source, 1 filter, 2 sink] */
    int live[2][3];
    int joins[2][3];
    int creates[2][3];
    int hang; /* a join on a worker that nobody will ever tell to stop                   */
    /* sink channel per stream */
    int accept[2];
    int n_accept_calls[2];
    int n_refuse[2]; /* accept_writes(ch, 0) calls: this call is an abort */
    /* monitor reader per stream: abstract unread path (0..2 intervals left) */
    int mon_intervals[2];
    int mon_mapped[2];
    size_t mon_len[2];
    int n_mon_map[2];
    int trig[2];
    int dm_destroyed;
    int closed_under_worker; /* the violation above happened: the state has left the invariant */
    /* the workers' own readers: [stream][0 sink reader on sink.in, 1 filter reader on filter.in] */
    int wr_intervals[2][2];
    int wr_mapped[2][2];
    size_t wr_len[2][2];
} ag;

static struct runtime* g_rt; /* the runtime under test */

/* Which stream / which worker a pointer handed to a stub belongs to is decided by pointer
 * equality against the (constant) addresses inside the runtime object, and the stub body is
 * then run with LITERAL stream and worker indices. (Computing the index from the pointer's
 * offset made every later access g_rt->video[s] a symbolic-index access into the whole
 * runtime object: byte extractions, 10^7 SAT variables, 15-minute units.) A pointer that is
 * none of the expected ones fails the [C04.streams-do-not-mix] obligation of the stub. */
#define V_(s) (g_rt->video[s])

static int
worker_uses_cam(const struct Camera* c)
{
    for (int s = 0; s < 2; ++s)
        if (g_rt->video[s].source.camera == c && ag.live[s][0] && g_rt->video[s].source.is_running)
            return 1;
    return 0;
}
static int
worker_uses_sto(const struct Storage* st)
{
    for (int s = 0; s < 2; ++s)
        if (g_rt->video[s].sink.storage == st && ag.live[s][2] && g_rt->video[s].sink.is_running)
            return 1;
    return 0;
}

/* ------------------------------------------------------------------ camera HAL stubs */
struct Camera*
camera_open(const struct DeviceManager* system, const struct DeviceIdentifier* identifier)
{
    if (!identifier || identifier->kind != DeviceKind_Camera || nd_bool())
        return 0;
    struct Camera* d = malloc(sizeof(*d));
    VASSUME(d != 0);
    *d = zero_camera;
    d->state = DeviceState_AwaitingConfiguration;
    ag.cam_opens++;
    return d;
}

void
camera_close(struct Camera* self)
{
    if (!self)
        return;
    if (worker_uses_cam(self))
        ag.closed_under_worker++;
    VASSERT(!worker_uses_cam(self),
            "[C08.no-close-under-a-worker] a camera is closed while the source thread that uses it is alive");
    ag.cam_closes++;
    free(self); /* any later use is a use-after-free */
}

enum DeviceStatusCode
camera_set(struct Camera* self, struct CameraProperties* settings)
{
    if (!self || !settings)
        return Device_Err;
    if (nd_bool()) {
        if (self->state != DeviceState_Running)
            self->state = DeviceState_Armed;
        return Device_Ok;
    }
    self->state = DeviceState_AwaitingConfiguration;
    return Device_Err;
}

enum DeviceStatusCode
camera_get(const struct Camera* self, struct CameraProperties* settings)
{
    if (!self || !settings)
        return Device_Err;
    return nd_bool() ? Device_Ok : Device_Err;
}

enum DeviceStatusCode
camera_get_meta(const struct Camera* self, struct CameraPropertyMetadata* meta)
{
    if (!self || !meta)
        return Device_Err;
    return nd_bool() ? Device_Ok : Device_Err;
}

enum DeviceStatusCode
camera_get_image_shape(const struct Camera* self, struct ImageShape* shape)
{
    if (!self || !shape)
        return Device_Err;
    return nd_bool() ? Device_Ok : Device_Err;
}

enum DeviceStatusCode
camera_start(struct Camera* self)
{
    if (!self)
        return Device_Err;
    VASSERT(self->state == DeviceState_Armed, "[C08.start-only-armed] a camera is started only from the Armed state");
    VASSERT(!worker_uses_cam(self), "[C08.no-restart-under-a-worker] a camera is started while a source thread still uses it");
    if (nd_bool()) {
        self->state = DeviceState_Running;
        return Device_Ok;
    }
    self->state = DeviceState_AwaitingConfiguration;
    return Device_Err;
}

enum DeviceStatusCode
camera_stop(struct Camera* self)
{
    if (!self)
        return Device_Err;
    if (self->state == DeviceState_Running) {
        self->state = nd_bool() ? DeviceState_Armed : DeviceState_AwaitingConfiguration;
    }
    return Device_Ok;
}

enum DeviceStatusCode
camera_execute_trigger(struct Camera* self)
{
    if (!self)
        return Device_Err;
    if (self == V_(0).source.camera)
        ag.trig[0]++;
    if (self == V_(1).source.camera)
        ag.trig[1]++;
    return nd_bool() ? Device_Ok : Device_Err;
}

enum DeviceStatusCode
camera_get_frame(struct Camera* self, void* im, size_t* nbytes, struct ImageInfo* info)
{
    return Device_Err; /* only the worker bodies call it */
}

enum DeviceState
camera_get_state(const struct Camera* const camera)
{
    return camera ? camera->state : DeviceState_Closed;
}

/* ------------------------------------------------------------------ storage HAL stubs */
struct Storage*
storage_open(const struct DeviceManager* system, const struct DeviceIdentifier* identifier)
{
    if (!identifier || identifier->kind != DeviceKind_Storage || nd_bool())
        return 0;
    struct Storage* d = malloc(sizeof(*d));
    VASSUME(d != 0);
    *d = zero_storage;
    d->state = DeviceState_AwaitingConfiguration;
    ag.sto_opens++;
    return d;
}

void
storage_close(struct Storage* self)
{
    if (!self)
        return;
    if (worker_uses_sto(self))
        ag.closed_under_worker++;
    VASSERT(!worker_uses_sto(self),
            "[C08.no-close-under-a-worker] a storage device is closed while the sink thread that uses it is alive");
    ag.sto_closes++;
    free(self);
}

enum DeviceStatusCode
storage_set(struct Storage* self, const struct StorageProperties* settings)
{
    if (!self || !settings)
        return Device_Err;
    if (nd_bool()) {
        if (self->state != DeviceState_Running)
            self->state = DeviceState_Armed;
        return Device_Ok;
    }
    if (self->state != DeviceState_Running)
        self->state = DeviceState_AwaitingConfiguration;
    return Device_Err;
}

enum DeviceStatusCode
storage_get(const struct Storage* self, struct StorageProperties* settings)
{
    return self ? Device_Ok : Device_Err;
}
enum DeviceStatusCode
storage_get_meta(const struct Storage* self, struct StoragePropertyMetadata* meta)
{
    return self ? Device_Ok : Device_Err;
}
enum DeviceStatusCode
storage_reserve_image_shape(struct Storage* self, const struct ImageShape* shape)
{
    return self ? Device_Ok : Device_Err;
}

enum DeviceStatusCode
storage_start(struct Storage* self)
{
    if (!self || self->state != DeviceState_Armed)
        return Device_Err;
    VASSERT(!worker_uses_sto(self), "[C08.no-restart-under-a-worker] storage is started while a sink thread still uses it");
    if (nd_bool()) {
        self->state = DeviceState_Running;
        return Device_Ok;
    }
    self->state = DeviceState_AwaitingConfiguration;
    return Device_Err;
}

enum DeviceStatusCode
storage_stop(struct Storage* self)
{
    if (!self)
        return Device_Err;
    if (self->state == DeviceState_Running) {
        self->state = DeviceState_Armed;
    }
    return Device_Ok;
}

enum DeviceStatusCode
storage_append(struct Storage* self, const struct VideoFrame* beg, const struct VideoFrame* end)
{
    return Device_Err; /* only the sink body calls it */
}

enum DeviceState
storage_get_state(const struct Storage* const self)
{
    return self ? self->state : DeviceState_Closed;
}

/* ------------------------------------------------------------------ device manager (C++) */
enum DeviceStatusCode
device_manager_init(struct DeviceManager* self, void (*reporter)(int, const char*, int, const char*, const char*))
{
    return nd_bool() ? Device_Ok : Device_Err;
}
enum DeviceStatusCode
device_manager_destroy(struct DeviceManager* self)
{
    ag.dm_destroyed++;
    return Device_Ok;
}
uint32_t
device_manager_count(const struct DeviceManager* self)
{
    return 0;
}
enum DeviceStatusCode
device_manager_get(struct DeviceIdentifier* out, const struct DeviceManager* self, uint32_t index)
{
    return Device_Err;
}
enum DeviceStatusCode
device_manager_select_default(const struct DeviceManager* self, enum DeviceKind kind, struct DeviceIdentifier* out)
{
    if (nd_bool())
        return Device_Err;
    out->kind = kind;
    out->driver_id = nd_uchar();
    out->device_id = nd_uchar();
    return Device_Ok;
}
enum DeviceStatusCode
device_manager_select(const struct DeviceManager* self, enum DeviceKind kind, const char* name, size_t n, struct DeviceIdentifier* out)
{
    return Device_Err;
}

/* ------------------------------------------------------------------ platform stubs */
void
thread_init(struct thread* self)
{
    self->is_live_ = 0;
}

static uint8_t
thread_create_impl(const int s, const int k)
{
    /* a finished but unjoined previous worker only loses its handle; no property speaks
     * about that */
    /* thread creation is assumed to succeed (stated in the evidence) */
    if (k == 1 || k == 2) {
        const int r = (k == 2) ? 0 : 1;
        VASSERT(ag.wr_intervals[s][r] == 0 && !ag.wr_mapped[s][r],
                "[C09.next-acquisition-starts-clean,C07.no-leftovers,C04.no-leftovers] a sink/filter worker is started on a reader that still has unread data of an earlier acquisition (those frames would be stored as part of the new one)");
    }
    ag.live[s][k] = 1;
    ag.creates[s][k]++;
    /* from now on the worker uses its device while its is_running flag is up */
    return 1;
}

#define THREAD_DISPATCH(t, CALL, DEFAULT)                                                     \
    if ((t) == &V_(0).source.thread) { CALL(0, 0); }                                          \
    else if ((t) == &V_(0).filter.thread) { CALL(0, 1); }                                     \
    else if ((t) == &V_(0).sink.thread) { CALL(0, 2); }                                       \
    else if ((t) == &V_(1).source.thread) { CALL(1, 0); }                                     \
    else if ((t) == &V_(1).filter.thread) { CALL(1, 1); }                                     \
    else if ((t) == &V_(1).sink.thread) { CALL(1, 2); }                                       \
    else {                                                                                    \
        VASSERT(0, "[C04.streams-do-not-mix] a thread handle that is none of the six worker handles of the runtime"); \
        DEFAULT;                                                                              \
    }

uint8_t
thread_create(struct thread* self, void (*proc)(void*), void* args)
{
#define CALL_(s, k) return thread_create_impl(s, k)
    THREAD_DISPATCH(self, CALL_, return 0)
#undef CALL_
}

static void
thread_join_impl(const int s, const int k)
{
    if (ag.live[s][k]) {
        /* a join returns only if the worker terminates: it must have been told to stop, or
         * the thread that will tell it (the source, at the end of its body) must be alive or
         * already gone through its exit path in this very stop sequence */
        int will_end = 1;
        if (k == 1)
            will_end = V_(s).filter.is_stopping || ag.live[s][0] || ag.joins[s][0];
        if (k == 2)
            will_end = V_(s).sink.is_stopping || ag.live[s][0] || ag.joins[s][0];
        if (!will_end)
            ag.hang++;
        VASSERT(will_end, "[C07.join-only-terminating-workers] a worker is joined that nobody has told (or will tell) to stop: stop/abort would not return");
        /* the source and the filter write into the sink channel: a writer asleep on a full
         * ring (the client holds its data) is released by the refuse signal only, and stays
         * released only while the channel keeps refusing (channel_write_map re-tests the
         * flag after waking) */
        /* a source whose camera waits for a software trigger returns from its frame call only
         * when the trigger is fired: abort has to do that before it joins the source */
        if (k == 0)
            VASSERT(!(ag.n_refuse[s] > 0 && V_(s).source.camera != 0 && ag.trig[s] == 0),
                    "[C07.trigger-fired-before-source-join] abort joins a source worker without having fired its camera's software trigger: a camera waiting for a trigger never returns the frame call and the join never returns");
        if (k == 0 || k == 1)
            VASSERT(!(ag.n_refuse[s] > 0 && ag.accept[s] == 1),
                    "[C07.refused-until-writers-joined] abort re-accepted writes on the sink channel before a worker that writes into it (source, filter) was joined: a writer asleep on a full ring is not released and the join never returns");
        /* exit path of the worker bodies (source.thread / sink.thread / filter.thread units):
         * flags cleared, device stopped, reader unmapped */
        if (k == 0) {
            /* guarantee side of the rely used in sink.thread / filter units: the stop flags of
             * the filter and the sink are raised by the source's own exit path, after its last
             * commit - not by the client while the source body is still running (frames
             * committed after the consumers' final flush would be left in the rings) */
            VASSERT(!(V_(s).source.is_running && (V_(s).filter.is_stopping || V_(s).sink.is_stopping)),
                    "[C07.stop-flags-only-after-last-commit,C04.stop-flags-only-after-last-commit,C10.stop-flags-only-after-last-commit] the filter/sink stop flags were raised while the source body was still running");
            V_(s).source.is_running = 0;
            V_(s).source.is_stopping = 0;
            V_(s).filter.is_stopping = 1;
            V_(s).sink.is_stopping = 1;
            if (V_(s).source.camera)
                camera_stop(V_(s).source.camera);
        } else if (k == 1) {
            V_(s).filter.is_running = 0;
            V_(s).filter.is_stopping = 0;
            /* filter.thread: the reader is left unmapped; its single final process_data may
             * leave a second interval (or, after an error, anything) unread */
            ag.wr_mapped[s][1] = 0;
            V_(s).filter.reader.state = ChannelState_Unmapped;
            ag.wr_intervals[s][1] = nd_uchar() % 3;
            if (ag.wr_intervals[s][1])
                V_(s).filter.reader.id = 3;
        } else {
            V_(s).sink.is_running = 0;
            V_(s).sink.is_stopping = 0;
            /* sink.thread: unmapped; drained after a normal exit, anything after a storage error */
            ag.wr_mapped[s][0] = 0;
            V_(s).sink.reader.state = ChannelState_Unmapped;
            ag.wr_intervals[s][0] = nd_bool() ? 0 : nd_uchar() % 3;
            if (ag.wr_intervals[s][0])
                V_(s).sink.reader.id = 1;
            if (V_(s).sink.storage)
                storage_stop(V_(s).sink.storage);
        }
        ag.live[s][k] = 0;
        ag.joins[s][k]++;
    }
}

void
thread_join(struct thread* self)
{
#define CALL_(s, k) thread_join_impl(s, k)
    THREAD_DISPATCH(self, CALL_, (void)0)
#undef CALL_
}

void event_init(struct event* self) {}
void event_destroy(struct event* self) {}
void event_wait(struct event* self) {}
void event_notify_all(struct event* self) {}
struct throttler throttler_init(float s) { struct throttler t = { 0 }; return t; }
void throttler_wait(struct throttler* self) {}
uint64_t clock_tic(struct clock* c) { return 0; }

/* ------------------------------------------------------------------ channel stubs */
void
channel_new(struct channel* self, size_t capacity)
{
    memset(self, 0, sizeof(*self));
    self->capacity = capacity;
    self->is_accepting_writes = 1;
}
void
channel_release(struct channel* self)
{
}
void
channel_accept_writes(struct channel* self, uint32_t tf)
{
    if (self == &V_(0).sink.in) {
        ag.accept[0] = tf ? 1 : 0;
        ag.n_accept_calls[0]++;
        if (!tf)
            ag.n_refuse[0]++;
    } else if (self == &V_(1).sink.in) {
        ag.accept[1] = tf ? 1 : 0;
        ag.n_accept_calls[1]++;
        if (!tf)
            ag.n_refuse[1]++;
    } else {
        VASSERT(0, "[C07.refuse-only-sink-channel,C04.streams-do-not-mix] accept/refuse is applied to a stream's sink channel");
    }
}
void* channel_write_map(struct channel* self, size_t nbytes) { return 0; }
void channel_write_unmap(struct channel* self) {}
void channel_abort_write(struct channel* self) {}

static uint64_t frame_mem[16];

/* a worker's own reader (r = 0 sink reader on sink.in, 1 filter reader on filter.in), used by
 * the runtime only while that worker is not running */
static struct slice
wr_read_map(const int s, const int r, struct channel_reader* reader)
{
    VASSERT(!ag.live[s][r == 0 ? 2 : 1] || !(r == 0 ? V_(s).sink.is_running : V_(s).filter.is_running),
            "[C08.no-touch-under-a-worker] the runtime reads with a worker's reader while that worker runs");
    VASSERT(reader->state == ChannelState_Unmapped, "[C06.map-needs-unmapped-reader] read_map on a worker reader that still holds a region");
    if (ag.wr_intervals[s][r] == 0)
        return (struct slice){ (uint8_t*)frame_mem, (uint8_t*)frame_mem };
    reader->state = ChannelState_Mapped;
    ag.wr_mapped[s][r] = 1;
    ag.wr_len[s][r] = 8 * (size_t)(1 + nd_uchar() % 15);
    return (struct slice){ (uint8_t*)frame_mem, (uint8_t*)frame_mem + ag.wr_len[s][r] };
}

/* the public (monitor) reader of stream s on its sink channel */
static struct slice
mon_read_map(const int s, struct channel_reader* reader)
{
    VASSERT(reader->state == ChannelState_Unmapped,
            "[C06.map-needs-unmapped-reader] channel_read_map is called on a reader that still holds a region (it would be marked Expected_Unmapped_Reader for good and every later acquire_map_read would fail)");
    if (reader->state == ChannelState_Mapped) {
        reader->status = Channel_Expected_Unmapped_Reader;
        ag.mon_intervals[s] = 0;
        static uint64_t none[1];
        return (struct slice){ (uint8_t*)none, (uint8_t*)none };
    }
    if (reader->id == 0)
        reader->id = 1 + (unsigned)s; /* registered */
    ag.n_mon_map[s]++;
    /* while workers run the writer may have committed more (at most one lap ahead) */
    if (ag.live[s][0] || ag.live[s][1])
        ag.mon_intervals[s] = nd_uchar() % 3;
    if (ag.mon_intervals[s] == 0) {
        /* empty only when drained (C01). The real channel returns {NULL,NULL}; the stub returns
         * an empty slice at a valid address because CBMC treats NULL-NULL as a fatal pointer
         * check and this unit needs --pointer-check for the use-after-close obligations;
         * acquire.c only computes end-beg of it. */
        return (struct slice){ (uint8_t*)frame_mem, (uint8_t*)frame_mem };
    }
    reader->state = ChannelState_Mapped;
    ag.mon_mapped[s] = 1;
    ag.mon_len[s] = 8 * (size_t)(1 + nd_uchar() % 15);
    return (struct slice){ (uint8_t*)frame_mem, (uint8_t*)frame_mem + ag.mon_len[s] };
}

#define READER_DISPATCH(self, reader, MON, WR, DEFAULT)                                       \
    if ((self) == &V_(0).sink.in && (reader) == &V_(0).monitor.reader) { MON(0); }            \
    else if ((self) == &V_(1).sink.in && (reader) == &V_(1).monitor.reader) { MON(1); }       \
    else if ((self) == &V_(0).sink.in && (reader) == &V_(0).sink.reader) { WR(0, 0); }        \
    else if ((self) == &V_(1).sink.in && (reader) == &V_(1).sink.reader) { WR(1, 0); }        \
    else if ((self) == &V_(0).filter.in && (reader) == &V_(0).filter.reader) { WR(0, 1); }    \
    else if ((self) == &V_(1).filter.in && (reader) == &V_(1).filter.reader) { WR(1, 1); }    \
    else {                                                                                    \
        VASSERT(0, "[C06.monitor-reads-its-own-stream,C04.streams-do-not-mix] the runtime reads a channel only with the reader registered for it: the stream's monitor reader (or its stopped worker's reader) on the same stream's channel"); \
        DEFAULT;                                                                              \
    }

struct slice
channel_read_map(struct channel* self, struct channel_reader* reader)
{
#define MON_(s) return mon_read_map(s, &V_(s).monitor.reader)
#define WR_(s, r) return wr_read_map(s, r, (r) == 0 ? &V_(s).sink.reader : &V_(s).filter.reader)
    READER_DISPATCH(self, reader, MON_, WR_, return ((struct slice){ (uint8_t*)frame_mem, (uint8_t*)frame_mem }))
#undef MON_
#undef WR_
}

static void
wr_read_unmap(const int s, const int r, struct channel_reader* reader, size_t consumed_bytes)
{
    if (reader->state != ChannelState_Mapped)
        return;
    reader->state = ChannelState_Unmapped;
    ag.wr_mapped[s][r] = 0;
    if (consumed_bytes >= ag.wr_len[s][r])
        ag.wr_intervals[s][r]--;
}

static void
mon_read_unmap(const int s, struct channel_reader* reader, size_t consumed_bytes)
{
    if (reader->state != ChannelState_Mapped)
        return;
    reader->state = ChannelState_Unmapped;
    ag.mon_mapped[s] = 0;
    /* consuming the whole region finishes the first interval; a partial consume leaves it */
    if (consumed_bytes >= ag.mon_len[s])
        ag.mon_intervals[s]--;
}

void
channel_read_unmap(struct channel* self, struct channel_reader* reader, size_t consumed_bytes)
{
#define MON_(s) mon_read_unmap(s, &V_(s).monitor.reader, consumed_bytes)
#define WR_(s, r) wr_read_unmap(s, r, (r) == 0 ? &V_(s).sink.reader : &V_(s).filter.reader, consumed_bytes)
    READER_DISPATCH(self, reader, MON_, WR_, (void)0)
#undef MON_
#undef WR_
}

struct vfslice make_vfslice(const struct slice s) { return (struct vfslice){ (const struct VideoFrame*)s.beg, (const struct VideoFrame*)s.end }; }
struct vfslice_mut make_vfslice_mut(const struct slice s) { return (struct vfslice_mut){ (struct VideoFrame*)s.beg, (struct VideoFrame*)s.end }; }
struct vfslice vfslice_split_at_delay_ms(const struct vfslice* slice, float d) { return *slice; }
struct frame_iterator frame_iterator_init(struct slice* s) { return (struct frame_iterator){ .remaining = *s }; }
struct VideoFrame* frame_iterator_next(struct frame_iterator* it) { return 0; }
size_t bytes_of_image(const struct ImageShape* const shape) { return 0; }

#include "ri.h"
