/* Stub contracts for process_data / video_filter_thread.  The channel stubs carry the
 * clauses enforced in contracts/channel; accumulate/normalize are replaced (goto-instrument
 * --replace-calls) by stubs carrying the clauses enforced in filter.accumulate /
 * filter.normalize.*; frame_iterator_next and bytes_of_image carry the clauses enforced in
 * contracts/runtime_misc. */
static struct flt_ghost
{
    /* input side */
    int in_mapped;
    unsigned long iterated;   /* frames handed out by the iterator in this call          */
    unsigned long added;      /* accumulate calls in this call                            */
    unsigned long refused;    /* frames dropped because the output refused a region       */
    int in_consumed_all;      /* read_unmap was given the whole slice                     */
    size_t in_len;
    int iter_done;
    /* output side */
    int pending;              /* an accumulator region is mapped                          */
    size_t acc_n;             /* its size                                                  */
    unsigned long window;     /* frames added to the pending accumulator                  */
    int normalized;
    unsigned long emitted;    /* windows committed                                        */
    unsigned long aborted;
    uint64_t first_id;        /* frame id of the first frame of the pending window        */
    int bad_emit;             /* a committed frame violated the emission clauses          */
    int n_event;
    size_t k;                 /* ghost pixel index                                         */
} fg;
static struct video_filter_s g_flt;
static struct channel g_out;
static uint8_t* g_accbuf;     /* stands for ring memory of the output channel: its contents
                                 are whatever an earlier lap left there                    */
static struct VideoFrame* g_inframe; /* the frame the iterator currently points at         */
static struct ImageShape g_inshape;  /* all frames of an acquisition share one shape       */
static size_t g_npix;
#define ACC_N (ALIGN8(HDR + 4 * g_npix))

struct slice
channel_read_map(struct channel* self, struct channel_reader* reader)
{
    VASSERT(self == &g_flt.in && reader == &g_flt.reader, "[C04.streams-do-not-mix] the filter reads its own channel with its own reader");
    VASSERT(!fg.in_mapped, "[C02.one-region-per-reader] read_map on a reader that still holds a region");
    fg.in_len = nd_ulong();
    VASSUME(fg.in_len <= ((size_t)1 << 40));
    if (fg.in_len == 0)
        return (struct slice){ 0, 0 };
    fg.in_mapped = 1;
    return (struct slice){ (uint8_t*)g_inframe, (uint8_t*)g_inframe + fg.in_len };
}

void
channel_read_unmap(struct channel* self, struct channel_reader* reader, size_t consumed_bytes)
{
    VASSERT(self == &g_flt.in && reader == &g_flt.reader, "[C04.streams-do-not-mix] the filter unmaps its own reader");
    if (!fg.in_mapped)
        return;
    fg.in_consumed_all = (consumed_bytes == fg.in_len);
    fg.in_mapped = 0;
}

struct frame_iterator
frame_iterator_init(struct slice* slice)
{
    fg.iter_done = (slice->beg == 0);
    return (struct frame_iterator){ .remaining = *slice };
}

struct VideoFrame*
frame_iterator_next(struct frame_iterator* it)
{
    /* contract: the frames of the mapped packet, one after the other, then NULL */
#ifdef PD_MAX_FRAMES
    if (fg.iterated >= PD_MAX_FRAMES)
        fg.iter_done = 1; /* bounded stand-in: packets of at most PD_MAX_FRAMES frames */
#endif
    if (fg.iter_done || nd_bool()) {
        fg.iter_done = 1;
        return 0;
    }
    /* the next frame: same shape as every frame of this acquisition, any ids/pixels */
    g_inframe->shape = g_inshape;
    g_inframe->frame_id = nd_ulong();
    g_inframe->timestamps.hardware = nd_ulong();
    fg.iterated++;
    return g_inframe;
}

size_t
bytes_of_image(const struct ImageShape* const shape)
{
    VASSERT(shape->type == SampleType_f32, "[C10.output-is-f32] the accumulator shape is 32-bit float");
    VASSERT(shape->strides.planes == g_inshape.strides.planes, "[C10.acc-has-input-shape] the accumulator has the input's geometry");
    return 4 * g_npix;
}

void*
channel_write_map(struct channel* self, size_t nbytes)
{
    VASSERT(self == &g_out, "[C04.streams-do-not-mix] the filter writes into its stream's sink channel");
    VASSERT(!fg.pending, "[C02.single-writer] a second accumulator is mapped while one is pending");
    VASSERT(nbytes == ACC_N && nbytes % 8 == 0, "[C05.size-is-header-plus-image-rounded,C10.acc-size] the accumulator request is header + 4*pixels rounded up to 8");
    if (nd_bool()) {
        if (fg.refused < 3)
            fg.refused++;
        return 0;
    }
    fg.pending = 1;
    fg.acc_n = nbytes;
    fg.window = 0;
    fg.normalized = 0;
    return g_accbuf;
}

void
channel_write_unmap(struct channel* self)
{
    VASSERT(self == &g_out, "[C04.streams-do-not-mix] commit on the stream's sink channel");
    if (!fg.pending)
        return;
    fg.pending = 0;
    const struct VideoFrame* f = (const struct VideoFrame*)g_accbuf;
    if (!(f->bytes_of_frame == fg.acc_n && f->shape.type == SampleType_f32 && f->frame_id == fg.first_id &&
          f->shape.strides.planes == g_inshape.strides.planes && f->shape.dims.width == g_inshape.dims.width &&
          f->shape.dims.height == g_inshape.dims.height))
        fg.bad_emit = 1;
    VASSERT(f->bytes_of_frame == fg.acc_n, "[C05.size-field-is-write-size] the emitted frame's size field equals the committed write size");
    VASSERT(f->shape.type == SampleType_f32, "[C10.output-is-f32] emitted frames are 32-bit float");
    VASSERT(f->frame_id == fg.first_id, "[C10.id-of-first-frame] the emitted frame carries the id of the window's first frame");
    VASSERT(fg.window >= 1, "[C10.no-empty-window] an emitted frame averages at least one input frame");
    if (fg.emitted < 3)
        fg.emitted++;
}

void
channel_abort_write(struct channel* self)
{
    VASSERT(self == &g_out && fg.pending, "[C02.single-writer] abort of a region that is not mapped");
    fg.pending = 0;
    if (fg.aborted < 3)
        fg.aborted++;
}

int
stub_accumulate(struct VideoFrame* acc, const struct VideoFrame* in)
{
    VASSERT(fg.pending && (uint8_t*)acc == g_accbuf, "[C10.adds-into-pending-accumulator,C02.writes-only-into-mapped-region] accumulate targets the mapped accumulator (a region that was committed may already be held by a reader)");
    VASSERT(in == g_inframe, "[C10.each-frame-once] accumulate is given the frame the iterator just returned");
    VASSERT(acc->shape.type == SampleType_f32 && acc->shape.strides.planes == in->shape.strides.planes,
            "[C10.acc-has-input-shape] accumulator header initialised before the first add");
    if (fg.window == 0) {
        VASSERT(((const float*)acc->data)[fg.k] == 0.0f,
                "[C10.first-add-is-copy] the accumulator pixels are zero before the first frame of a window is added (ring memory is reused, so this must be established by the filter)");
        fg.first_id = in->frame_id;
    }
    if (!SUPPORTED_IN(in->shape.type))
        return 0;
    /* contract of accumulate: adds the frame pixel-wise */
    ((float*)acc->data)[fg.k] += 1.0f;
    fg.window++;
    fg.added++;
    return 1;
}

void
stub_normalize(struct VideoFrame* acc, float inverse_norm)
{
    VASSERT(fg.pending && (uint8_t*)acc == g_accbuf, "[C10.adds-into-pending-accumulator,C02.writes-only-into-mapped-region] normalize targets the mapped accumulator (a region that was committed may already be held by a reader)");
    VASSERT(fg.window == g_flt.filter_window_frames, "[C10.window-is-k-frames] a window is emitted when exactly k frames were added");
#ifdef PD_LITERAL_K
    /* only in the units with a literal window size: with a symbolic count this is an
     * equality of two float dividers, which no back end closed */
    VASSERT(inverse_norm == 1.0f / (float)fg.window, "[C10.mean-divides-by-window] the sum is scaled by 1/k");
#endif
    fg.normalized = 1;
}

void
event_notify_all(struct event* self)
{
    if (fg.n_event < 3)
        fg.n_event++;
}
void event_init(struct event* self) {}
void event_destroy(struct event* self) {}
void channel_new(struct channel* self, size_t capacity) {}
void channel_release(struct channel* self) {}
void thread_init(struct thread* self) {}
uint8_t thread_create(struct thread* self, void (*proc)(void*), void* args) { return 0; }
void thread_join(struct thread* self) {}
struct throttler throttler_init(float seconds_per_loop) { struct throttler t = { 0 }; return t; }
void throttler_wait(struct throttler* self) {}
