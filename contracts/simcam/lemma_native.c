/* C17 size lemma by exhaustive enumeration (DESIGN sec. C17): for every configuration
 * simcam_set accepts -- binning in {1,2,4,...,128}, all 8 sample types, width and height
 * in 1..8192/binning -- the buffer size simcam_set allocates (the real
 * compute_full_resolution_shape_and_offset + aligned_bytes_of_image, compiled from the
 * repository file) covers everything the streamer and get_frame touch:
 *   - the bytes im_fill_rand / im_fill_pattern write for the full-resolution shape,
 *   - w*h bytes for every bin2(w, h) call of the halving loop (computed in `int` as bin2
 *     does, which must not overflow),
 *   - bytes_of_image(binned shape), which simcam_get_frame copies out.
 * This is NOT a CBMC proof: comparing different 64-bit multiplier trees does not terminate
 * there. It is a complete enumeration of a finite domain on the compiled code. */
#include <stdio.h>
#include <stdint.h>
#include <stdlib.h>
#include <string.h>
#include "device/kit/camera.h"
#include "device/props/camera.h"
#include "device/props/components.h"
#include "identifiers.h"
#include "platform.h"

void aq_logger(int e, const char* f, int l, const char* fn, const char* fmt, ...) {}
uint8_t popcount_u8(uint8_t v) { return (uint8_t)__builtin_popcount(v); }
uint32_t pcg32_random(void) { return 0; }
void lock_init(struct lock* s) {}
void lock_acquire(struct lock* s) {}
void lock_release(struct lock* s) {}
void condition_variable_init(struct condition_variable* s) {}
void condition_variable_wait(struct condition_variable* s, struct lock* l) {}
void condition_variable_notify_all(struct condition_variable* s) {}
void thread_init(struct thread* s) {}
uint8_t thread_create(struct thread* s, void (*p)(void*), void* a) { return 0; }
void thread_join(struct thread* s) {}
void clock_init(struct clock* c) {}
uint64_t clock_tic(struct clock* c) { return 0; }
double clock_toc_ms(struct clock* c) { return 0; }
void clock_sleep_ms(struct clock* c, float ms) {}
void im_fill_pattern_u8(const struct ImageShape* const s, float ox, float oy, uint8_t* b) {}
void im_fill_pattern_i8(const struct ImageShape* const s, float ox, float oy, int8_t* b) {}
void im_fill_pattern_u16(const struct ImageShape* const s, float ox, float oy, uint16_t* b) {}
void im_fill_pattern_i16(const struct ImageShape* const s, float ox, float oy, int16_t* b) {}
void im_fill_pattern_f32(const struct ImageShape* const s, float ox, float oy, float* b) {}

#include "device/props/components.c"
#include "simcams/simulated.camera.c"

int
main(void)
{
    unsigned long cases = 0, failures = 0;
    static struct SimulatedCamera cam;
    for (unsigned b = 1; b <= 128; b <<= 1) {
        for (unsigned t = 0; t < SampleTypeCount; ++t) {
            const unsigned m = 8192 / b;
            for (unsigned y = 1; y <= m; ++y) {
                for (unsigned x = 1; x <= m; ++x) {
                    cam.properties.binning = (uint8_t)b;
                    cam.properties.shape.x = x;
                    cam.properties.shape.y = y;
                    cam.im.shape.type = (enum SampleType)t;
                    cam.im.shape.dims.width = x;
                    cam.im.shape.dims.height = y;
                    cam.im.shape.strides.planes = (int64_t)x * y;
                    struct ImageShape full = { 0 };
                    uint32_t origin[2];
                    compute_full_resolution_shape_and_offset(&cam, &full, origin);
                    const size_t cap = aligned_bytes_of_image(&full); /* what simcam_set allocates */
                    int ok = 1;
                    ok &= bytes_of_image(&full) <= cap;               /* im_fill_pattern extent */
                    ok &= bytes_of_image(&cam.im.shape) <= cap;       /* get_frame copies this  */
                    int w = full.dims.width, h = full.dims.height, bb = (int)b >> 1;
                    while (bb) {
                        long long wh = (long long)w * h;
                        ok &= wh <= 0x7fffffffLL && (size_t)wh <= cap; /* bin2 extent, int arithmetic */
                        bb >>= 1;
                        w >>= 1;
                        h >>= 1;
                    }
                    ok &= (unsigned)w == x && (unsigned)h == y;       /* halving ends at the binned shape */
                    cases++;
                    failures += !ok;
                    if (!ok && failures <= 5)
                        printf("LEMMA-FAILS binning=%u type=%u width=%u height=%u cap=%zu\n", b, t, x, y, cap);
                }
            }
        }
    }
    printf("LEMMA cases=%lu failures=%lu\n", cases, failures);
    return failures ? 1 : 0;
}
