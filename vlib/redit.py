import sys
def edit(path, old, new):
    s=open(path,'r',newline='').read()
    crlf = '\r\n' in s
    if crlf:
        old=old.replace('\n','\r\n'); new=new.replace('\n','\r\n')
    assert s.count(old)==1, (path, s.count(old))
    open(path,'w',newline='').write(s.replace(old,new))
