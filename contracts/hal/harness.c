/* C11 (also used by C08/C09/C16): contracts on the real HAL wrappers
 *   /repo/acquire-core-libs/src/acquire-device-hal/device/hal/{driver,camera,storage}.c
 * against a protocol-checking ghost driver whose every return code is nondeterministic.
 *
 * The real .c files are #included unmodified.  Differences from the product build:
 * aq_logger is a no-op; device_manager_get_driver (C++) is a stub returning the ghost
 * driver or NULL. */
#include "verif.h"

#include "device/hal/driver.h"
#include "device/hal/camera.h"
#include "device/hal/storage.h"
#include "device/hal/device.manager.h"
#include "device/kit/driver.h"
#include "device/kit/camera.h"
#include "device/kit/storage.h"

#include <stdlib.h>
#include <string.h>

/* ------------------------------------------------------------------ ghost state */
struct hal_ghost
{
    int n_open, n_close, n_describe;
    int n_set, n_get, n_get_meta, n_get_shape, n_start, n_stop, n_trigger,
      n_get_frame, n_append, n_reserve;
    int alive;   /* the device object exists: opened and not yet closed          */
    int started; /* camera: last start returned Ok and no stop since.
                    storage: the driver's own last response declared Running    */
    /* last code returned by each driver entry (-1: not called)                */
    int r_set, r_get, r_get_meta, r_get_shape, r_start, r_stop, r_trigger,
      r_get_frame, r_append;
    /* explicit "old" values, taken by the harness right before the call        */
    int state0;
    int started0;
    int kind; /* DeviceKind the ghost driver serves                              */
    int incomplete; /* the opened device lacks a mandatory interface function   */
    int open_fails, describe_fails;
    void* dev; /* address of the live device object (never dereferenced here)   */
} g;

static struct Driver g_driver;

#define DRIVER_CALLS_BUT_CLOSE                                                 \
    (g.n_set + g.n_get + g.n_get_meta + g.n_get_shape + g.n_start + g.n_stop + \
     g.n_trigger + g.n_get_frame + g.n_append + g.n_reserve)
#define DEVICE_CALLS (DRIVER_CALLS_BUT_CLOSE + g.n_close)

/* ------------------------------------------------------------------ stubs */
void
aq_logger(int is_error,
          const char* file,
          int line,
          const char* function,
          const char* fmt,
          ...)
{
}

const char*
device_kind_as_string(enum DeviceKind k)
{
    return "kind";
}
const char*
device_state_as_string(enum DeviceState s)
{
    return "state";
}

static int g_dm_returns_null;
struct Driver*
device_manager_get_driver(const struct DeviceManager* self,
                          const struct DeviceIdentifier* identifier)
{
    return g_dm_returns_null ? 0 : &g_driver;
}

static enum DeviceStatusCode
nd_status(void)
{
    return nd_bool() ? Device_Ok : Device_Err;
}

static enum DeviceState
nd_state(void)
{
    unsigned s = nd_uchar();
    VASSUME(s < DeviceStateCount);
    return (enum DeviceState)s;
}

#define LEGAL_ALIVE(what)                                                      \
    VASSERT(g.alive, "[C11.nothing-after-close] driver " what                  \
                     " called on a device that is not open")

/* --- camera driver stubs */
static enum DeviceStatusCode
cam_set(struct Camera* c, struct CameraProperties* s)
{
    LEGAL_ALIVE("camera.set");
    g.n_set++;
    return g.r_set = nd_status();
}
static enum DeviceStatusCode
cam_get(const struct Camera* c, struct CameraProperties* s)
{
    LEGAL_ALIVE("camera.get");
    g.n_get++;
    return g.r_get = nd_status();
}
static enum DeviceStatusCode
cam_get_meta(const struct Camera* c, struct CameraPropertyMetadata* m)
{
    LEGAL_ALIVE("camera.get_meta");
    g.n_get_meta++;
    return g.r_get_meta = nd_status();
}
static enum DeviceStatusCode
cam_get_shape(const struct Camera* c, struct ImageShape* s)
{
    LEGAL_ALIVE("camera.get_shape");
    g.n_get_shape++;
    return g.r_get_shape = nd_status();
}
static enum DeviceStatusCode
cam_start(struct Camera* c)
{
    LEGAL_ALIVE("camera.start");
    g.n_start++;
    g.r_start = nd_status();
    g.started = (g.r_start == Device_Ok);
    return g.r_start;
}
static enum DeviceStatusCode
cam_stop(struct Camera* c)
{
    LEGAL_ALIVE("camera.stop");
    VASSERT(g.started,
            "[C11.stop-needs-start] camera.stop without a preceding "
            "successful start");
    g.n_stop++;
    g.started = 0;
    return g.r_stop = nd_status();
}
static enum DeviceStatusCode
cam_trigger(struct Camera* c)
{
    LEGAL_ALIVE("camera.execute_trigger");
    g.n_trigger++;
    return g.r_trigger = nd_status();
}
static enum DeviceStatusCode
cam_get_frame(struct Camera* c, void* im, size_t* nbytes, struct ImageInfo* info)
{
    LEGAL_ALIVE("camera.get_frame");
    VASSERT(g.started,
            "[C11.frame-only-running] camera.get_frame outside the running "
            "state");
    g.n_get_frame++;
    return g.r_get_frame = nd_status();
}

/* --- storage driver stubs: the driver declares its own state */
static enum DeviceState
sto_set(struct Storage* s, const struct StorageProperties* p)
{
    LEGAL_ALIVE("storage.set");
    g.n_set++;
    g.r_set = nd_state();
    g.started = (g.r_set == DeviceState_Running);
    return g.r_set;
}
static void
sto_get(const struct Storage* s, struct StorageProperties* p)
{
    LEGAL_ALIVE("storage.get");
    g.n_get++;
}
static void
sto_get_meta(const struct Storage* s, struct StoragePropertyMetadata* m)
{
    LEGAL_ALIVE("storage.get_meta");
    g.n_get_meta++;
}
static enum DeviceState
sto_start(struct Storage* s)
{
    LEGAL_ALIVE("storage.start");
    g.n_start++;
    g.r_start = nd_state();
    g.started = (g.r_start == DeviceState_Running);
    return g.r_start;
}
static enum DeviceState
sto_append(struct Storage* s, const struct VideoFrame* f, size_t* nbytes)
{
    LEGAL_ALIVE("storage.append");
    VASSERT(g.started,
            "[C11.append-only-running] storage.append outside the running "
            "state");
    g.n_append++;
    g.r_append = nd_state();
    g.started = (g.r_append == DeviceState_Running);
    return g.r_append;
}
static enum DeviceState
sto_stop(struct Storage* s)
{
    LEGAL_ALIVE("storage.stop");
    VASSERT(g.started,
            "[C11.stop-needs-start] storage.stop without a preceding "
            "successful start");
    g.n_stop++;
    g.r_stop = nd_state();
    g.started = (g.r_stop == DeviceState_Running);
    return g.r_stop;
}
static void
sto_destroy(struct Storage* s)
{
}
static void
sto_reserve(struct Storage* s, const struct ImageShape* shape)
{
    LEGAL_ALIVE("storage.reserve_image_shape");
    g.n_reserve++;
}

/* --- driver stubs */
static struct Camera*
mk_camera_object(void)
{
    struct Camera* c = malloc(sizeof(*c));
    VASSUME(c);
    memset(c, 0, sizeof(*c));
    c->set = cam_set;
    c->get = cam_get;
    c->get_meta = cam_get_meta;
    c->get_shape = cam_get_shape;
    c->start = cam_start;
    c->stop = cam_stop;
    c->execute_trigger = cam_trigger;
    c->get_frame = cam_get_frame;
    return c;
}

static struct Storage*
mk_storage_object(void)
{
    struct Storage* s = malloc(sizeof(*s));
    VASSUME(s);
    memset(s, 0, sizeof(*s));
    s->set = sto_set;
    s->get = sto_get;
    s->get_meta = sto_get_meta;
    s->start = sto_start;
    s->append = sto_append;
    s->stop = sto_stop;
    s->destroy = sto_destroy;
    s->reserve_image_shape = sto_reserve;
    return s;
}

static enum DeviceStatusCode
drv_open(struct Driver* d, uint64_t device_id, struct Device** out)
{
    VASSERT(!g.alive, "[C11.one-close-per-open] second open while a device "
                      "of this harness is still open");
    if (g.open_fails)
        return Device_Err; /* nothing was opened */
    g.n_open++;
    g.alive = 1;
    g.started = 0;
    if (g.kind == DeviceKind_Camera) {
        struct Camera* c = mk_camera_object();
        c->state = DeviceState_AwaitingConfiguration;
        if (g.incomplete)
            c->get_frame = 0;
        g.dev = c;
        *out = &c->device;
    } else {
        struct Storage* s = mk_storage_object();
        s->state = DeviceState_AwaitingConfiguration;
        if (g.incomplete)
            s->reserve_image_shape = 0;
        g.dev = s;
        *out = &s->device;
    }
    return Device_Ok;
}

static enum DeviceStatusCode
drv_describe(const struct Driver* d, struct DeviceIdentifier* id, uint64_t i)
{
    g.n_describe++;
    if (g.describe_fails)
        return Device_Err;
    id->kind = (enum DeviceKind)g.kind;
    id->device_id = (uint8_t)i;
    id->name[0] = 0;
    return Device_Ok;
}

static enum DeviceStatusCode
drv_close(struct Driver* d, struct Device* dev)
{
    VASSERT(g.alive, "[C11.one-close-per-open] driver.close on a device that "
                     "is not open");
    VASSERT((void*)dev == g.dev, "[C11.one-close-per-open] driver.close on a "
                                 "foreign pointer");
    g.n_close++;
    g.alive = 0;
    g.started = 0;
    free(g.dev); /* any later access is a CBMC/ASan failure */
    return nd_status();
}

static void
ghost_reset(void)
{
    memset(&g, 0, sizeof(g));
    g.r_set = g.r_get = g.r_get_meta = g.r_get_shape = g.r_start = g.r_stop =
      g.r_trigger = g.r_get_frame = g.r_append = -1;
    g_driver.open = drv_open;
    g_driver.describe = drv_describe;
    g_driver.close = drv_close;
    g_dm_returns_null = 0;
}

/* AGREE: the HAL state field and the ghost protocol state agree. */
#define CAM_AGREE(c)                                                           \
    (g.alive && (void*)(c) == g.dev &&                                         \
     IFF((c)->state == DeviceState_Running, g.started))
#define STO_AGREE(s)                                                           \
    (g.alive && (void*)(s) == g.dev &&                                         \
     IFF((s)->state == DeviceState_Running, g.started))

/* An open camera in an arbitrary protocol state satisfying AGREE. */
static struct Camera*
arb_camera(void)
{
    ghost_reset();
    g.kind = DeviceKind_Camera;
    struct Camera* c = mk_camera_object();
    c->device.driver = &g_driver;
    c->state = nd_state();
    g.alive = 1;
    g.n_open = 1;
    g.dev = c;
    g.started = (c->state == DeviceState_Running);
    g.state0 = c->state;
    g.started0 = g.started;
    return c;
}

static struct Storage*
arb_storage(void)
{
    ghost_reset();
    g.kind = DeviceKind_Storage;
    struct Storage* s = mk_storage_object();
    s->device.driver = &g_driver;
    s->state = nd_state();
    g.alive = 1;
    g.n_open = 1;
    g.dev = s;
    g.started = (s->state == DeviceState_Running);
    g.state0 = s->state;
    g.started0 = g.started;
    return s;
}

/* ================================================================== contracts
 * Conventions: `g` holds call counters that start at 0 in every harness, so
 * "exactly one driver stop" reads g.n_stop == 1.  g.state0 is the HAL state
 * before the call. */

#define WAS_RUNNING (g.state0 == DeviceState_Running)

/* ---------------------------------------------------------------- driver.c */
#define CONTRACT_driver_open_device(REQ, ENS, ASG, FRE)                                       \
    REQ(out != 0 && *out == 0 && !g.alive && g.n_open == 0 && g.n_close == 0)                 \
    REQ(driver == 0 || driver == &g_driver)                                                   \
    ENS("[C11.one-close-per-open] a failed driver_open_device leaves no device open",        \
        IMPL(RET != Device_Ok, g.n_open == g.n_close && !g.alive))                            \
    ENS("[C11.one-close-per-open] a successful open leaves exactly one device open",         \
        IMPL(RET == Device_Ok, g.n_open == 1 && g.n_close == 0 && g.alive))                   \
    ENS("[C12.open-yields-described] the opened device carries the identifier described "    \
        "for device_id and its driver",                                                       \
        IMPL(RET == Device_Ok,                                                                \
             *out != 0 && (void*)*out == g.dev && (*out)->driver == driver &&                 \
               (*out)->identifier.kind == (enum DeviceKind)g.kind &&                          \
               (*out)->identifier.device_id == device_id))                                    \
    ENS("[C12.null-driver-is-error] NULL driver gives Device_Err without any driver call",   \
        IMPL(driver == 0, RET == Device_Err && g.n_open == 0))                                \
    ENS("[C11.state-follows-driver] failing driver.open gives Device_Err",                   \
        IMPL(g.open_fails, RET == Device_Err))                                                \
    ASG(g, *out)

#define CONTRACT_driver_close_device(REQ, ENS, ASG, FRE)                                      \
    REQ(device != 0 && g.alive && (void*)device == g.dev && device->driver == &g_driver)      \
    REQ(g.n_close == 0)                                                                       \
    ENS("[C11.one-close-per-open] exactly one driver.close", g.n_close == 1 && !g.alive)     \
    ENS("[C11.nothing-after-close] no other driver call", DRIVER_CALLS_BUT_CLOSE == 0)        \
    ASG(g)                                                                                    \
    FRE(device)

/* ---------------------------------------------------------------- camera.c */
#define CONTRACT_camera_open(REQ, ENS, ASG, FRE)                                              \
    REQ(!g.alive && g.n_open == 0 && g.n_close == 0 && g.kind == DeviceKind_Camera)           \
    ENS("[C11.one-close-per-open,C08.no-leak] camera_open returning NULL leaves no "         \
        "device open",                                                                        \
        IMPL(RET == 0, g.n_open == g.n_close && !g.alive))                                    \
    ENS("[C11.one-close-per-open] camera_open returning a camera leaves exactly that "       \
        "device open",                                                                        \
        IMPL(RET != 0, (void*)RET == g.dev && g.alive && g.n_open == 1 && g.n_close == 0))    \
    ENS("[C11.agree] the returned camera is not Running and the driver is not started",      \
        IMPL(RET != 0, CAM_AGREE(RET) && RET->state != DeviceState_Running))                  \
    ENS("[C12.bad-input-is-error] NULL identifier or wrong kind gives NULL without any "     \
        "driver call",                                                                        \
        IMPL(identifier == 0 || identifier->kind != DeviceKind_Camera,                        \
             RET == 0 && g.n_open == 0))                                                      \
    ENS("[C11.nothing-after-close] no device call other than close happens in open",         \
        DRIVER_CALLS_BUT_CLOSE == 0)                                                          \
    ASG(g)

#define CONTRACT_camera_close(REQ, ENS, ASG, FRE)                                             \
    REQ(self == 0 || (CAM_AGREE(self) && self->device.driver == &g_driver))                   \
    REQ(g.n_close == 0 && DRIVER_CALLS_BUT_CLOSE == 0)                                        \
    ENS("[C11.one-close-per-open] camera_close closes the device exactly once",              \
        IMPL(self != 0, g.n_close == 1 && !g.alive))                                          \
    ENS("[C11.null-is-noop] camera_close(NULL) makes no driver call",                        \
        IMPL(self == 0, DEVICE_CALLS == 0))                                                   \
    ASG(g)                                                                                    \
    FRE(self)

#define CAM_PRE(REQ, self)                                                                        \
    REQ(self == 0 || (CAM_AGREE(self) && self->device.driver == &g_driver))                   \
    REQ(DEVICE_CALLS == 0 && g.state0 == (self ? (int)self->state : 0) &&                     \
        g.started0 == g.started)

#define CAM_POST_COMMON(ENS, self)                                                                \
    ENS("[C11.agree] HAL state and driver protocol state agree afterwards",                  \
        IMPL(self != 0, CAM_AGREE(self)))                                                     \
    ENS("[C11.one-close-per-open] the device is not closed by this call", g.n_close == 0)

#define CONTRACT_camera_set(REQ, ENS, ASG, FRE)                                               \
    CAM_PRE(REQ, self)                                                                            \
    CAM_POST_COMMON(ENS, self)                                                                    \
    ENS("[C11.null-is-error] NULL argument gives Device_Err with no driver call",            \
        IMPL(self == 0 || settings == 0, RET == Device_Err && DEVICE_CALLS == 0))             \
    ENS("[C11.state-follows-driver] result is the driver's set status; one set call",        \
        IMPL(self != 0 && settings != 0, g.n_set == 1 && (int)RET == g.r_set))      \
    ENS("[C11.state-follows-driver] Ok keeps Running, otherwise Armed",                      \
        IMPL(self != 0 && settings != 0 && RET == Device_Ok,                                  \
             self->state == (WAS_RUNNING ? DeviceState_Running : DeviceState_Armed) &&        \
               g.n_stop == 0))                                                                \
    ENS("[C11.state-follows-driver] Err stops a running camera once and awaits config",      \
        IMPL(self != 0 && settings != 0 && RET == Device_Err,                                 \
             self->state == DeviceState_AwaitingConfiguration &&                              \
               g.n_stop == (WAS_RUNNING ? 1 : 0) && !g.started))                              \
    ENS("[C17.binning-at-least-1] binning handed to the driver is at least 1",               \
        IMPL(self != 0 && settings != 0, settings->binning >= 1))                             \
    ASG(g; self != 0: self->state; settings != 0: settings->binning)


#define CAM_PASSTHROUGH(REQ, ENS, ASG, self, arg, counter, rfield, what)                      \
    CAM_PRE(REQ, self)                                                                        \
    CAM_POST_COMMON(ENS, self)                                                                \
    ENS("[C11.null-is-error] NULL argument gives Device_Err with no driver call",            \
        IMPL(self == 0 || arg == 0, RET == Device_Err && DEVICE_CALLS == 0))                  \
    ENS("[C11.state-follows-driver] " what " returns the driver's status; exactly one call", \
        IMPL(self != 0 && arg != 0,                                                           \
             g.counter == 1 && DEVICE_CALLS == 1 && (int)RET == g.rfield))                    \
    ENS("[C11.state-follows-driver] " what " leaves the HAL state alone",                    \
        IMPL(self != 0, (int)self->state == g.state0))                                        \
    ASG(g)

#define CONTRACT_camera_get(REQ, ENS, ASG, FRE)                                               \
    CAM_PASSTHROUGH(REQ, ENS, ASG, self, settings, n_get, r_get, "camera_get")
#define CONTRACT_camera_get_meta(REQ, ENS, ASG, FRE)                                          \
    CAM_PASSTHROUGH(REQ, ENS, ASG, self, meta, n_get_meta, r_get_meta, "camera_get_meta")
#define CONTRACT_camera_get_image_shape(REQ, ENS, ASG, FRE)                                   \
    CAM_PASSTHROUGH(REQ, ENS, ASG, self, shape, n_get_shape, r_get_shape,                     \
                    "camera_get_image_shape")

#define CONTRACT_camera_start(REQ, ENS, ASG, FRE)                                             \
    CAM_PRE(REQ, self)                                                                        \
    CAM_POST_COMMON(ENS, self)                                                                \
    ENS("[C11.null-is-error] NULL camera gives Device_Err with no driver call",              \
        IMPL(self == 0, RET == Device_Err && DEVICE_CALLS == 0))                              \
    ENS("[C11.state-follows-driver] one driver.start; result is its status",                 \
        IMPL(self != 0, g.n_start == 1 && DEVICE_CALLS == 1 && (int)RET == g.r_start))        \
    ENS("[C11.state-follows-driver,C08.running-iff-started] Ok means Running, Err means "    \
        "AwaitingConfiguration",                                                              \
        IMPL(self != 0,                                                                       \
             self->state == (RET == Device_Ok ? DeviceState_Running                           \
                                              : DeviceState_AwaitingConfiguration)))          \
    ASG(g; self != 0: self->state)

#define CONTRACT_camera_stop(REQ, ENS, ASG, FRE)                                              \
    CAM_PRE(REQ, self)                                                                        \
    CAM_POST_COMMON(ENS, self)                                                                \
    ENS("[C11.null-is-error] NULL camera gives Device_Err with no driver call",              \
        IMPL(self == 0, RET == Device_Err && DEVICE_CALLS == 0))                              \
    ENS("[C11.stop-needs-start,C08.stop-once-per-start] a running camera is stopped by "     \
        "exactly one driver.stop; a non-running one sees no driver call",                     \
        IMPL(self != 0, g.n_stop == (WAS_RUNNING ? 1 : 0) && DEVICE_CALLS == g.n_stop))       \
    ENS("[C11.state-follows-driver] stop Ok means Armed, stop Err means "                    \
        "AwaitingConfiguration, result is the driver's status",                               \
        IMPL(self != 0 && WAS_RUNNING,                                                        \
             (int)RET == g.r_stop &&                                                          \
               self->state == (RET == Device_Ok ? DeviceState_Armed                           \
                                                : DeviceState_AwaitingConfiguration)))        \
    ENS("[C11.state-follows-driver] stopping a non-running camera is Ok and changes nothing",\
        IMPL(self != 0 && !WAS_RUNNING, RET == Device_Ok && (int)self->state == g.state0))    \
    ENS("[C09.camera-stopped] after camera_stop the driver is not started", !g.started)       \
    ASG(g; self != 0: self->state)

#define CONTRACT_camera_execute_trigger(REQ, ENS, ASG, FRE)                                   \
    CAM_PRE(REQ, self)                                                                        \
    CAM_POST_COMMON(ENS, self)                                                                \
    ENS("[C11.null-is-error] NULL camera gives Device_Err with no driver call",              \
        IMPL(self == 0, RET == Device_Err && DEVICE_CALLS == 0))                              \
    ENS("[C11.state-follows-driver] a running camera gets exactly one trigger call",         \
        IMPL(self != 0 && WAS_RUNNING,                                                        \
             g.n_trigger == 1 && DEVICE_CALLS == 1 && (int)RET == g.r_trigger))               \
    ENS("[C11.state-follows-driver] a non-running camera gets no call and Ok",               \
        IMPL(self != 0 && !WAS_RUNNING, DEVICE_CALLS == 0 && RET == Device_Ok))               \
    ENS("[C11.state-follows-driver] the HAL state is unchanged",                             \
        IMPL(self != 0, (int)self->state == g.state0))                                        \
    ASG(g)

#define CONTRACT_camera_get_frame(REQ, ENS, ASG, FRE)                                         \
    CAM_PRE(REQ, self)                                                                        \
    CAM_POST_COMMON(ENS, self)                                                                \
    ENS("[C11.frame-only-running] NULL or non-running camera: Device_Err, no driver call",   \
        IMPL(self == 0 || !WAS_RUNNING, RET == Device_Err && DEVICE_CALLS == 0))              \
    ENS("[C11.state-follows-driver] running: one get_frame, result is its status",           \
        IMPL(self != 0 && WAS_RUNNING, g.n_get_frame == 1 && (int)RET == g.r_get_frame))      \
    ENS("[C11.state-follows-driver] Ok keeps the camera Running with no other call",         \
        IMPL(self != 0 && WAS_RUNNING && RET == Device_Ok,                                    \
             self->state == DeviceState_Running && DEVICE_CALLS == 1))                        \
    ENS("[C11.state-follows-driver,C09.camera-stopped] a failed frame call stops the "       \
        "camera exactly once and demotes it to AwaitingConfiguration",                        \
        IMPL(self != 0 && WAS_RUNNING && RET != Device_Ok,                                    \
             self->state == DeviceState_AwaitingConfiguration && g.n_stop == 1 &&             \
               !g.started && DEVICE_CALLS == 2))                                              \
    ASG(g; self != 0: self->state)

#define CONTRACT_camera_get_state(REQ, ENS, ASG, FRE)                                         \
    CAM_PRE(REQ, camera)                                                                      \
    ENS("[C11.state-follows-driver] reports the stored state, Closed for NULL; no call",     \
        (int)RET == (camera ? g.state0 : (int)DeviceState_Closed) && DEVICE_CALLS == 0)       \
    ASG()

/* ---------------------------------------------------------------- storage.c */
#define STO_PRE(REQ, self)                                                                    \
    REQ(self == 0 || (STO_AGREE(self) && self->device.driver == &g_driver))                   \
    REQ(DEVICE_CALLS == 0 && g.state0 == (self ? (int)self->state : 0) &&                     \
        g.started0 == g.started)

#define STO_POST_COMMON(ENS, self)                                                            \
    ENS("[C11.agree] HAL state and driver protocol state agree afterwards",                  \
        IMPL(self != 0, STO_AGREE(self)))                                                     \
    ENS("[C11.one-close-per-open] the device is not closed by this call", g.n_close == 0)

#define CONTRACT_storage_open(REQ, ENS, ASG, FRE)                                             \
    REQ(!g.alive && g.n_open == 0 && g.n_close == 0 && g.kind == DeviceKind_Storage)          \
    ENS("[C11.one-close-per-open,C08.no-leak] storage_open returning NULL leaves no "        \
        "device open",                                                                        \
        IMPL(RET == 0, g.n_open == g.n_close && !g.alive))                                    \
    ENS("[C11.one-close-per-open] storage_open returning a device leaves exactly that "      \
        "device open",                                                                        \
        IMPL(RET != 0, (void*)RET == g.dev && g.alive && g.n_open == 1 && g.n_close == 0))    \
    ENS("[C11.agree] the returned storage is not Running and the driver is not started",     \
        IMPL(RET != 0, STO_AGREE(RET) && RET->state != DeviceState_Running))                  \
    ENS("[C12.bad-input-is-error] NULL identifier or wrong kind gives NULL without any "     \
        "driver call",                                                                        \
        IMPL(identifier == 0 || identifier->kind != DeviceKind_Storage,                       \
             RET == 0 && g.n_open == 0))                                                      \
    ENS("[C11.stop-needs-start] no start/stop/append happens in open",                       \
        g.n_start + g.n_stop + g.n_append == 0)                                               \
    ASG(g)

#define CONTRACT_storage_validate(REQ, ENS, ASG, FRE)                                         \
    REQ(!g.alive && g.n_open == 0 && g.n_close == 0 && g.kind == DeviceKind_Storage)          \
    REQ(identifier != 0)                                                                      \
    ENS("[C11.one-close-per-open,C08.no-leak] storage_validate always closes what it "       \
        "opened, exactly once",                                                               \
        g.n_open == g.n_close && !g.alive && g.n_open <= 1)                                   \
    ENS("[C11.state-follows-driver] valid iff the driver's set answered Armed",              \
        IFF(RET != 0, g.n_set == 1 && g.r_set == DeviceState_Armed))                          \
    ENS("[C11.append-only-running] validate never starts or appends",                        \
        g.n_start + g.n_append == 0)                                                          \
    ASG(g)

#define CONTRACT_storage_close(REQ, ENS, ASG, FRE)                                            \
    STO_PRE(REQ, self)                                                                        \
    ENS("[C11.one-close-per-open] storage_close closes the device exactly once",             \
        IMPL(self != 0, g.n_close == 1 && !g.alive))                                          \
    ENS("[C11.stop-needs-start,C08.stop-once-per-start] a running device is stopped once "   \
        "before the close, a non-running one is not stopped",                                 \
        IMPL(self != 0, g.n_stop == (WAS_RUNNING ? 1 : 0)))                                   \
    ENS("[C11.null-is-noop] storage_close(NULL) makes no driver call",                       \
        IMPL(self == 0, DEVICE_CALLS == 0))                                                   \
    ASG(g; self != 0: self->state)                                                            \
    FRE(self)

#define CONTRACT_storage_set(REQ, ENS, ASG, FRE)                                              \
    STO_PRE(REQ, self)                                                                        \
    STO_POST_COMMON(ENS, self)                                                                \
    ENS("[C11.null-is-error] NULL argument gives Device_Err with no driver call",            \
        IMPL(self == 0 || settings == 0, RET == Device_Err && DEVICE_CALLS == 0))             \
    ENS("[C11.state-follows-driver] the HAL state is the state the driver's set returned",   \
        IMPL(self != 0 && settings != 0,                                                      \
             g.n_set == 1 && DEVICE_CALLS == 1 && (int)self->state == g.r_set))               \
    ENS("[C11.state-follows-driver] Ok iff the driver answered Armed",                       \
        IMPL(self != 0 && settings != 0, IFF(RET == Device_Ok, g.r_set == DeviceState_Armed)))\
    ASG(g; self != 0: self->state)

#define CONTRACT_storage_get(REQ, ENS, ASG, FRE)                                              \
    STO_PRE(REQ, self)                                                                        \
    STO_POST_COMMON(ENS, self)                                                                \
    ENS("[C11.null-is-error] NULL device gives Device_Err with no driver call",              \
        IMPL(self == 0, RET == Device_Err && DEVICE_CALLS == 0))                              \
    ENS("[C11.state-follows-driver] one driver.get, state unchanged",                        \
        IMPL(self != 0, RET == Device_Ok && g.n_get == 1 && DEVICE_CALLS == 1 &&              \
                          (int)self->state == g.state0))                                      \
    ASG(g)

#define CONTRACT_storage_get_meta(REQ, ENS, ASG, FRE)                                         \
    STO_PRE(REQ, self)                                                                        \
    STO_POST_COMMON(ENS, self)                                                                \
    ENS("[C11.null-is-error] NULL device gives Device_Err with no driver call",              \
        IMPL(self == 0, RET == Device_Err && DEVICE_CALLS == 0))                              \
    ENS("[C11.state-follows-driver] one driver.get_meta, state unchanged",                   \
        IMPL(self != 0, RET == Device_Ok && g.n_get_meta == 1 && DEVICE_CALLS == 1 &&         \
                          (int)self->state == g.state0))                                      \
    ASG(g)

#define CONTRACT_storage_reserve_image_shape(REQ, ENS, ASG, FRE)                              \
    STO_PRE(REQ, self)                                                                        \
    STO_POST_COMMON(ENS, self)                                                                \
    ENS("[C11.null-is-error] NULL device gives Device_Err with no driver call",              \
        IMPL(self == 0, RET == Device_Err && DEVICE_CALLS == 0))                              \
    ENS("[C11.state-follows-driver] one driver.reserve_image_shape, state unchanged",        \
        IMPL(self != 0, RET == Device_Ok && g.n_reserve == 1 && DEVICE_CALLS == 1 &&          \
                          (int)self->state == g.state0))                                      \
    ASG(g)

#define WAS_ARMED (g.state0 == DeviceState_Armed)
#define CONTRACT_storage_start(REQ, ENS, ASG, FRE)                                            \
    STO_PRE(REQ, self)                                                                        \
    STO_POST_COMMON(ENS, self)                                                                \
    ENS("[C11.null-is-error,C08.start-only-armed] NULL or not-Armed device: Device_Err "     \
        "and no driver call",                                                                 \
        IMPL(self == 0 || !WAS_ARMED, RET == Device_Err && DEVICE_CALLS == 0))                \
    ENS("[C11.state-follows-driver] Armed: one driver.start; the HAL state is what it "      \
        "returned; Ok iff Running",                                                           \
        IMPL(self != 0 && WAS_ARMED,                                                          \
             g.n_start == 1 && DEVICE_CALLS == 1 && (int)self->state == g.r_start &&          \
               IFF(RET == Device_Ok, g.r_start == DeviceState_Running)))                      \
    ASG(g; self != 0: self->state)

#define CONTRACT_storage_stop(REQ, ENS, ASG, FRE)                                             \
    STO_PRE(REQ, self)                                                                        \
    STO_POST_COMMON(ENS, self)                                                                \
    ENS("[C11.null-is-error] NULL device gives Device_Err with no driver call",              \
        IMPL(self == 0, RET == Device_Err && DEVICE_CALLS == 0))                              \
    ENS("[C11.stop-needs-start,C08.stop-once-per-start] a running device gets exactly one "  \
        "driver.stop, a non-running one none",                                                \
        IMPL(self != 0, g.n_stop == (WAS_RUNNING ? 1 : 0) && DEVICE_CALLS == g.n_stop))       \
    ENS("[C11.state-follows-driver] the HAL state is what driver.stop returned; Ok iff "     \
        "Armed or AwaitingConfiguration",                                                     \
        IMPL(self != 0 && WAS_RUNNING,                                                        \
             (int)self->state == g.r_stop &&                                                  \
               IFF(RET == Device_Ok, g.r_stop == DeviceState_Armed ||                         \
                                       g.r_stop == DeviceState_AwaitingConfiguration)))       \
    ENS("[C11.state-follows-driver] stopping a non-running device is Ok and changes nothing",\
        IMPL(self != 0 && !WAS_RUNNING, RET == Device_Ok && (int)self->state == g.state0))    \
    ASG(g; self != 0: self->state)

#define CONTRACT_storage_append(REQ, ENS, ASG, FRE)                                           \
    STO_PRE(REQ, self)                                                                        \
    REQ(beg == 0 || __CPROVER_same_object(beg, end))                                          \
    STO_POST_COMMON(ENS, self)                                                                \
    ENS("[C11.append-only-running,C08.data-only-between-start-stop] NULL or non-running "    \
        "device: Device_Err and no driver call",                                              \
        IMPL(self == 0 || !WAS_RUNNING, RET == Device_Err && DEVICE_CALLS == 0))              \
    ENS("[C11.append-only-running] an empty or reversed packet makes no driver call",        \
        IMPL(self != 0 && WAS_RUNNING && !(beg < end),                                        \
             DEVICE_CALLS == 0 && RET == (end >= beg ? Device_Ok : Device_Err) &&             \
               (int)self->state == g.state0))                                                 \
    ENS("[C11.state-follows-driver,C16.failure-is-reported,C09.append-failure-reported] a "  \
        "non-empty packet is appended once; the HAL state is what the driver returned and "   \
        "anything but Running is reported as Device_Err",                                     \
        IMPL(self != 0 && WAS_RUNNING && beg < end,                                           \
             g.n_append == 1 && DEVICE_CALLS == 1 && (int)self->state == g.r_append &&        \
               IFF(RET == Device_Ok, g.r_append == DeviceState_Running)))                     \
    ASG(g; self != 0: self->state)

#define CONTRACT_storage_get_state(REQ, ENS, ASG, FRE)                                        \
    STO_PRE(REQ, self)                                                                        \
    ENS("[C11.state-follows-driver] reports the stored state, Closed for NULL; no call",     \
        (int)RET == (self ? g.state0 : (int)DeviceState_Closed) && DEVICE_CALLS == 0)         \
    ASG()

/* ================================================================== real code */
#ifndef VERIF_NATIVE
enum DeviceStatusCode
driver_open_device(struct Driver* driver, uint8_t device_id, struct Device** out)
  DFCC_CONTRACT(driver_open_device);
enum DeviceStatusCode
driver_close_device(struct Device* device) DFCC_CONTRACT(driver_close_device);
struct Camera*
camera_open(const struct DeviceManager* system,
            const struct DeviceIdentifier* identifier) DFCC_CONTRACT(camera_open);
void
camera_close(struct Camera* self) DFCC_CONTRACT(camera_close);
enum DeviceStatusCode
camera_set(struct Camera* self, struct CameraProperties* settings)
  DFCC_CONTRACT(camera_set);
enum DeviceStatusCode
camera_get(const struct Camera* self, struct CameraProperties* settings)
  DFCC_CONTRACT(camera_get);
enum DeviceStatusCode
camera_get_meta(const struct Camera* self, struct CameraPropertyMetadata* meta)
  DFCC_CONTRACT(camera_get_meta);
enum DeviceStatusCode
camera_get_image_shape(const struct Camera* self, struct ImageShape* shape)
  DFCC_CONTRACT(camera_get_image_shape);
enum DeviceStatusCode
camera_start(struct Camera* self) DFCC_CONTRACT(camera_start);
enum DeviceStatusCode
camera_stop(struct Camera* self) DFCC_CONTRACT(camera_stop);
enum DeviceStatusCode
camera_execute_trigger(struct Camera* self) DFCC_CONTRACT(camera_execute_trigger);
enum DeviceStatusCode
camera_get_frame(struct Camera* self, void* im, size_t* nbytes, struct ImageInfo* info)
  DFCC_CONTRACT(camera_get_frame);
enum DeviceState
camera_get_state(const struct Camera* const camera) DFCC_CONTRACT(camera_get_state);
struct Storage*
storage_open(const struct DeviceManager* system,
             const struct DeviceIdentifier* identifier) DFCC_CONTRACT(storage_open);
int
storage_validate(const struct DeviceManager* system,
                 const struct DeviceIdentifier* identifier,
                 const struct StorageProperties* settings)
  DFCC_CONTRACT(storage_validate);
void
storage_close(struct Storage* self) DFCC_CONTRACT(storage_close);
enum DeviceStatusCode
storage_set(struct Storage* self, const struct StorageProperties* settings)
  DFCC_CONTRACT(storage_set);
enum DeviceStatusCode
storage_get(const struct Storage* self, struct StorageProperties* settings)
  DFCC_CONTRACT(storage_get);
enum DeviceStatusCode
storage_get_meta(const struct Storage* self, struct StoragePropertyMetadata* meta)
  DFCC_CONTRACT(storage_get_meta);
enum DeviceStatusCode
storage_reserve_image_shape(struct Storage* self, const struct ImageShape* shape)
  DFCC_CONTRACT(storage_reserve_image_shape);
enum DeviceStatusCode
storage_start(struct Storage* self) DFCC_CONTRACT(storage_start);
enum DeviceStatusCode
storage_stop(struct Storage* self) DFCC_CONTRACT(storage_stop);
enum DeviceStatusCode
storage_append(struct Storage* self,
               const struct VideoFrame* beg,
               const struct VideoFrame* end) DFCC_CONTRACT(storage_append);
enum DeviceState
storage_get_state(const struct Storage* const self) DFCC_CONTRACT(storage_get_state);
#endif

#include "device/hal/driver.c"
#undef LOG
#undef LOGE
#undef EXPECT
#undef CHECK
#undef CHECK_NOJUMP
#include "device/hal/camera.c"
#undef LOG
#undef LOGE
#undef EXPECT
#undef CHECK
#undef CHECK_NOJUMP
#undef containerof
#undef countof
#include "device/hal/storage.c"

/* ================================================================== harnesses */
static struct DeviceManager g_dm;

void
h_driver_open_device(void)
{
    ghost_reset();
    g.kind = nd_bool() ? DeviceKind_Camera : DeviceKind_Storage;
    g.open_fails = nd_bool();
    g.describe_fails = nd_bool();
    struct Driver* driver = nd_bool() ? &g_driver : 0;
    uint8_t device_id = nd_uchar();
    struct Device* dev = 0;
    struct Device** out = &dev;
    enum DeviceStatusCode ret;
    H_CALL(driver_open_device, ret = driver_open_device(driver, device_id, out));
    H_END;
}

void
h_driver_close_device(void)
{
    struct Device* device;
    if (nd_bool())
        device = &arb_camera()->device;
    else
        device = &arb_storage()->device;
    enum DeviceStatusCode ret;
    H_CALL(driver_close_device, ret = driver_close_device(device));
    H_END;
}

void
h_camera_open(void)
{
    ghost_reset();
    g.kind = DeviceKind_Camera;
    g.open_fails = nd_bool();
    g.describe_fails = nd_bool();
    g.incomplete = nd_bool();
    g_dm_returns_null = nd_bool();
    struct DeviceIdentifier idv;
    idv.kind = (enum DeviceKind)nd_uchar();
    idv.device_id = nd_uchar();
    idv.driver_id = nd_uchar();
    const struct DeviceIdentifier* identifier = nd_bool() ? &idv : 0;
    const struct DeviceManager* system = &g_dm;
    struct Camera* ret;
    H_CALL(camera_open, ret = camera_open(system, identifier));
    H_END;
}

void
h_camera_close(void)
{
    struct Camera* self = arb_camera();
    if (nd_bool()) {
        free(self);
        ghost_reset();
        self = 0;
    }
    H_CALL(camera_close, camera_close(self));
    H_END;
}

void
h_camera_set(void)
{
    struct Camera* self = arb_camera();
    struct CameraProperties props;
    props.binning = nd_uchar();
    struct CameraProperties* settings = nd_bool() ? &props : 0;
    if (nd_bool()) {
        free(self);
        ghost_reset();
        self = 0;
    }
    enum DeviceStatusCode ret;
    H_CALL(camera_set, ret = camera_set(self, settings));
    VCOVER(self && settings && ret == Device_Err && WAS_RUNNING,
           "set fails on a running camera");
    VCOVER(self && settings && ret == Device_Ok && WAS_RUNNING,
           "set succeeds on a running camera");
    H_END;
}

/* An arbitrary open camera, or NULL. */
static struct Camera*
arb_camera_or_null(void)
{
    struct Camera* self = arb_camera();
    if (nd_bool()) {
        free(self);
        ghost_reset();
        self = 0;
    }
    return self;
}

static struct Storage*
arb_storage_or_null(void)
{
    struct Storage* self = arb_storage();
    if (nd_bool()) {
        free(self);
        ghost_reset();
        self = 0;
    }
    return self;
}

#define CAM_COVERS                                                             \
    VCOVER(self && WAS_RUNNING, "running camera");                             \
    VCOVER(self && !WAS_RUNNING, "non-running camera");                        \
    VCOVER(!self, "NULL camera");                                              \
    H_END

void
h_camera_get(void)
{
    struct Camera* self = arb_camera_or_null();
    struct CameraProperties props;
    struct CameraProperties* settings = nd_bool() ? &props : 0;
    enum DeviceStatusCode ret;
    H_CALL(camera_get, ret = camera_get(self, settings));
    VCOVER(self && settings && ret == Device_Err, "driver get fails");
    CAM_COVERS;
}

void
h_camera_get_meta(void)
{
    struct Camera* self = arb_camera_or_null();
    struct CameraPropertyMetadata m;
    struct CameraPropertyMetadata* meta = nd_bool() ? &m : 0;
    enum DeviceStatusCode ret;
    H_CALL(camera_get_meta, ret = camera_get_meta(self, meta));
    CAM_COVERS;
}

void
h_camera_get_image_shape(void)
{
    struct Camera* self = arb_camera_or_null();
    struct ImageShape sh;
    struct ImageShape* shape = nd_bool() ? &sh : 0;
    enum DeviceStatusCode ret;
    H_CALL(camera_get_image_shape, ret = camera_get_image_shape(self, shape));
    CAM_COVERS;
}

void
h_camera_start(void)
{
    struct Camera* self = arb_camera_or_null();
    enum DeviceStatusCode ret;
    H_CALL(camera_start, ret = camera_start(self));
    VCOVER(self && ret == Device_Err, "driver start fails");
    VCOVER(self && ret == Device_Ok, "driver start succeeds");
    CAM_COVERS;
}

void
h_camera_stop(void)
{
    struct Camera* self = arb_camera_or_null();
    enum DeviceStatusCode ret;
    H_CALL(camera_stop, ret = camera_stop(self));
    VCOVER(self && WAS_RUNNING && ret == Device_Err, "driver stop fails");
    CAM_COVERS;
}

void
h_camera_execute_trigger(void)
{
    struct Camera* self = arb_camera_or_null();
    enum DeviceStatusCode ret;
    H_CALL(camera_execute_trigger, ret = camera_execute_trigger(self));
    CAM_COVERS;
}

void
h_camera_get_frame(void)
{
    struct Camera* self = arb_camera_or_null();
    uint8_t buf[8];
    void* im = buf;
    size_t nb = 8;
    size_t* nbytes = &nb;
    struct ImageInfo inf;
    struct ImageInfo* info = &inf;
    enum DeviceStatusCode ret;
    H_CALL(camera_get_frame, ret = camera_get_frame(self, im, nbytes, info));
    VCOVER(self && WAS_RUNNING && ret == Device_Err, "driver get_frame fails");
    VCOVER(self && WAS_RUNNING && ret == Device_Ok, "driver get_frame succeeds");
    CAM_COVERS;
}

void
h_camera_get_state(void)
{
    struct Camera* camera = arb_camera_or_null();
    enum DeviceState ret;
    H_CALL(camera_get_state, ret = camera_get_state(camera));
    VCOVER(camera && ret == DeviceState_Running, "running camera");
    H_END;
}

#define STO_COVERS                                                             \
    VCOVER(self && WAS_RUNNING, "running storage");                            \
    VCOVER(self && !WAS_RUNNING, "non-running storage");                       \
    VCOVER(!self, "NULL storage");                                             \
    H_END

void
h_storage_open(void)
{
    ghost_reset();
    g.kind = DeviceKind_Storage;
    g.open_fails = nd_bool();
    g.describe_fails = nd_bool();
    g.incomplete = nd_bool();
    g_dm_returns_null = nd_bool();
    struct DeviceIdentifier idv;
    idv.kind = (enum DeviceKind)nd_uchar();
    idv.device_id = nd_uchar();
    idv.driver_id = nd_uchar();
    const struct DeviceIdentifier* identifier = nd_bool() ? &idv : 0;
    const struct DeviceManager* system = &g_dm;
    struct Storage* ret;
    H_CALL(storage_open, ret = storage_open(system, identifier));
    VCOVER(ret != 0, "open succeeds");
    VCOVER(ret == 0 && g.n_open == 1, "open then reject");
    H_END;
}

void
h_storage_validate(void)
{
    ghost_reset();
    g.kind = DeviceKind_Storage;
    g.open_fails = nd_bool();
    g.describe_fails = nd_bool();
    g_dm_returns_null = nd_bool();
    struct DeviceIdentifier idv;
    idv.kind = (enum DeviceKind)nd_uchar();
    idv.device_id = nd_uchar();
    idv.driver_id = nd_uchar();
    const struct DeviceIdentifier* identifier = &idv;
    const struct DeviceManager* system = &g_dm;
    struct StorageProperties sp;
    const struct StorageProperties* settings = &sp;
    int ret;
    H_CALL(storage_validate, ret = storage_validate(system, identifier, settings));
    VCOVER(ret != 0, "validate succeeds");
    VCOVER(ret == 0 && g.n_open == 1, "validate rejects after open");
    H_END;
}

void
h_storage_close(void)
{
    struct Storage* self = arb_storage_or_null();
    H_CALL(storage_close, storage_close(self));
    STO_COVERS;
}

void
h_storage_set(void)
{
    struct Storage* self = arb_storage_or_null();
    struct StorageProperties sp;
    const struct StorageProperties* settings = nd_bool() ? &sp : 0;
    enum DeviceStatusCode ret;
    H_CALL(storage_set, ret = storage_set(self, settings));
    VCOVER(self && settings && ret == Device_Ok, "set answers Armed");
    VCOVER(self && settings && g.r_set == DeviceState_Running, "set answers Running");
    STO_COVERS;
}

void
h_storage_get(void)
{
    struct Storage* self = arb_storage_or_null();
    struct StorageProperties sp;
    struct StorageProperties* settings = &sp;
    enum DeviceStatusCode ret;
    H_CALL(storage_get, ret = storage_get(self, settings));
    STO_COVERS;
}

void
h_storage_get_meta(void)
{
    struct Storage* self = arb_storage_or_null();
    struct StoragePropertyMetadata m;
    struct StoragePropertyMetadata* meta = &m;
    enum DeviceStatusCode ret;
    H_CALL(storage_get_meta, ret = storage_get_meta(self, meta));
    STO_COVERS;
}

void
h_storage_reserve_image_shape(void)
{
    struct Storage* self = arb_storage_or_null();
    struct ImageShape sh;
    const struct ImageShape* shape = &sh;
    enum DeviceStatusCode ret;
    H_CALL(storage_reserve_image_shape, ret = storage_reserve_image_shape(self, shape));
    STO_COVERS;
}

void
h_storage_start(void)
{
    struct Storage* self = arb_storage_or_null();
    enum DeviceStatusCode ret;
    H_CALL(storage_start, ret = storage_start(self));
    VCOVER(self && WAS_ARMED && ret == Device_Ok, "start succeeds");
    VCOVER(self && WAS_ARMED && ret == Device_Err, "start fails");
    STO_COVERS;
}

void
h_storage_stop(void)
{
    struct Storage* self = arb_storage_or_null();
    enum DeviceStatusCode ret;
    H_CALL(storage_stop, ret = storage_stop(self));
    VCOVER(self && WAS_RUNNING && ret == Device_Err, "stop answers an unexpected state");
    STO_COVERS;
}

void
h_storage_append(void)
{
    struct Storage* self = arb_storage_or_null();
    static uint64_t packet[64];
    unsigned lo = nd_uchar(), hi = nd_uchar();
    VASSUME(lo <= 512 && hi <= 512);
    const struct VideoFrame* beg = (const struct VideoFrame*)((uint8_t*)packet + lo);
    const struct VideoFrame* end = (const struct VideoFrame*)((uint8_t*)packet + hi);
#ifdef APPEND_NULL_PACKET
    /* the sink hands the {NULL,NULL} slice of an empty read to storage_append; CBMC's
     * pointer checks treat `NULL >= NULL` as fatal and leave everything after it UNKNOWN,
     * so this case is a unit of its own, run without --pointer-check */
    beg = 0;
    end = 0;
#endif
    enum DeviceStatusCode ret;
    H_CALL(storage_append, ret = storage_append(self, beg, end));
#ifndef APPEND_NULL_PACKET
    VCOVER(self && WAS_RUNNING && beg < end && ret == Device_Err, "append fails");
    VCOVER(self && WAS_RUNNING && beg < end && ret == Device_Ok, "append succeeds");
    VCOVER(self && WAS_RUNNING && beg > end, "reversed packet");
#endif
    VCOVER(self && WAS_RUNNING && beg == end, "empty packet");
    STO_COVERS;
}

void
h_storage_get_state(void)
{
    struct Storage* self = arb_storage_or_null();
    enum DeviceState ret;
    H_CALL(storage_get_state, ret = storage_get_state(self));
    H_END;
}
