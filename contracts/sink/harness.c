/* C04/C07/C09 (sink side): the real /repo/acquire-video-runtime/src/runtime/sink.c
 * (#included unmodified) against stub contracts of the channel reader operations
 * (enforced in contracts/channel: an empty map means drained, unmap consumes
 * min(consumed, held) from the front), of the storage HAL (enforced in contracts/hal),
 * of vfslice_split_at_delay_ms (checked in contracts/runtime_misc) and of the throttler.
 * All three real loops of video_sink_thread carry external loop contracts. */
#include "verif.h"
#include "runtime/sink.h"
#include "runtime/vfslice.h"
#include "runtime/throttler.h"
#include "device/hal/storage.h"

#include <stdlib.h>
#include <string.h>

void
aq_logger(int is_error, const char* file, int line, const char* function, const char* fmt, ...)
{
}
const char*
device_state_as_string(enum DeviceState s)
{
    return "state";
}

#define BIG ((size_t)1 << 50)

/* ------------------------------------------------------------------ ghost */
static struct sink_ghost
{
    /* the stream as the channel contracts describe it */
    size_t committed; /* bytes committed by the producer so far (monotone)              */
    size_t consumed;  /* bytes this reader has consumed (unmapped with)                 */
    size_t appended;  /* bytes handed to storage_append successfully                    */
    int mapped;       /* the reader holds a region                                      */
    size_t held;      /* its length                                                      */
    size_t held_off;  /* its position in the stream                                     */
    /* storage side */
    int sto_running;
    int append_failed;
    int n_append_after_failure;
    int n_storage_stop;
    int n_sig_stop_source;
    int out_of_order; /* an append did not start where the previous one ended           */
} kg;
static int g_producer_done; /* the source has committed its last frame (it then raises
                               is_stopping: C04.signals-after-last-commit)              */
static uint8_t* g_buf;      /* stands for the ring memory; never reassigned             */
static struct Storage* g_sto = (struct Storage*)0x2000; /* opaque */
static struct video_sink_s g_sink;

#define UNREAD (kg.committed - kg.consumed)

/* The other threads, made explicit (the loop contracts havoc the same variables; the bounded
 * fall-back run of this unit has no loop contracts and needs the steps spelled out): the
 * source may finish (its last commit is behind it) and, only after that, raise the sink's
 * stop flag (rely; its guarantee is [C07.stop-flags-only-after-last-commit]). */
static void
env_step(void)
{
    if (!g_producer_done && nd_bool())
        g_producer_done = 1;
    if (g_producer_done && nd_bool())
        g_sink.is_stopping = 1;
}

/* ------------------------------------------------------------------ stub contracts */
struct slice
channel_read_map(struct channel* self, struct channel_reader* reader)
{
    VASSERT(self == &g_sink.in && reader == &g_sink.reader, "[C04.streams-do-not-mix] the sink reads only its own channel with its own reader");
    VASSERT(!kg.mapped, "[C06.map-needs-unmapped-reader,C02.one-region-per-reader] read_map on a reader that still holds a region");
    /* environment: the producer may have committed more, unless it is done */
    if (!g_producer_done) {
        size_t more = nd_ulong();
        VASSUME(more <= BIG && kg.committed <= BIG);
        kg.committed += more;
    }
    env_step();
    if (UNREAD == 0) {
        /* contract: an empty region is returned only when everything committed was consumed */
        return (struct slice){ 0, 0 };
    }
    size_t len = nd_ulong(); /* the first interval of the unread path */
    VASSUME(len >= 1 && len <= UNREAD);
    kg.mapped = 1;
    kg.held = len;
    kg.held_off = kg.consumed;
    return (struct slice){ g_buf, g_buf + len };
}

void
channel_read_unmap(struct channel* self, struct channel_reader* reader, size_t consumed_bytes)
{
    VASSERT(self == &g_sink.in && reader == &g_sink.reader, "[C04.streams-do-not-mix] the sink unmaps its own reader");
    if (!kg.mapped)
        return;
    size_t m = consumed_bytes < kg.held ? consumed_bytes : kg.held;
    kg.consumed += m;
    kg.mapped = 0;
}

struct vfslice
make_vfslice(const struct slice slice)
{
    return (struct vfslice){ .beg = (const struct VideoFrame*)slice.beg, .end = (const struct VideoFrame*)slice.end };
}

struct vfslice
vfslice_split_at_delay_ms(const struct vfslice* slice, float delay_ms)
{
    /* contract: the remainder starts at a frame boundary inside the slice */
    if (slice->beg == slice->end)
        return *slice;
    size_t cut = nd_ulong();
    VASSUME(cut <= kg.held);
    return (struct vfslice){ .beg = (const struct VideoFrame*)((const uint8_t*)slice->beg + cut), .end = slice->end };
}

enum DeviceState
storage_get_state(const struct Storage* const self)
{
    if (!self)
        return DeviceState_Closed;
    return kg.sto_running ? DeviceState_Running : DeviceState_Armed;
}

enum DeviceStatusCode
storage_append(struct Storage* self, const struct VideoFrame* beg, const struct VideoFrame* end)
{
    VASSERT(self == g_sto, "[C08.storage-owned-by-sink] append on the stream's storage device");
    if (kg.append_failed && kg.n_append_after_failure < 2)
        kg.n_append_after_failure++;
    if (beg == 0 && end == 0)
        return kg.sto_running ? Device_Ok : Device_Err; /* HAL: empty packet, no driver call */
    VASSERT(kg.mapped && (const uint8_t*)beg == g_buf && (const uint8_t*)end >= g_buf &&
              (size_t)((const uint8_t*)end - g_buf) <= kg.held,
            "[C04.append-is-prefix-of-mapped-region,C02.only-mapped-bytes-used] storage is handed a prefix of the region the reader currently holds");
    size_t n = (size_t)((const uint8_t*)end - (const uint8_t*)beg);
    if (!kg.sto_running)
        return Device_Err;
    if (n == 0)
        return Device_Ok;
    if (nd_bool()) {
        /* the driver left the running state: HAL reports Device_Err (hal.storage_append) */
        kg.append_failed = 1;
        kg.sto_running = 0;
        return Device_Err;
    }
    if (kg.held_off != kg.appended)
        kg.out_of_order = 1;
    kg.appended += n;
    return Device_Ok;
}

enum DeviceStatusCode
storage_stop(struct Storage* self)
{
    VASSERT(self == g_sto, "[C08.storage-owned-by-sink] stop on the stream's storage device");
    if (kg.n_storage_stop < 2)
        kg.n_storage_stop++;
    int was = kg.sto_running;
    kg.sto_running = 0;
    return (was && nd_bool()) ? Device_Err : Device_Ok;
}

struct throttler
throttler_init(float seconds_per_loop)
{
    struct throttler t = { 0 };
    return t;
}
void
throttler_wait(struct throttler* self)
{
    env_step();
}

/* callees of the parts of sink.c this harness does not exercise */
void channel_new(struct channel* self, size_t capacity) {}
void channel_release(struct channel* self) {}
void channel_accept_writes(struct channel* self, uint32_t tf) {}
void thread_init(struct thread* self) {}
uint8_t thread_create(struct thread* self, void (*proc)(void*), void* args) { return 0; }
void thread_join(struct thread* self) {}
enum DeviceStatusCode storage_start(struct Storage* self) { return Device_Err; }
void storage_close(struct Storage* self) {}
struct Storage* storage_open(const struct DeviceManager* system, const struct DeviceIdentifier* identifier) { return 0; }
enum DeviceStatusCode storage_set(struct Storage* self, const struct StorageProperties* settings) { return Device_Err; }
enum DeviceStatusCode storage_get(const struct Storage* self, struct StorageProperties* settings) { return Device_Err; }

static void
cb_sig_stop_source(const struct video_sink_s* s)
{
    if (kg.n_sig_stop_source < 2)
        kg.n_sig_stop_source++;
}

/* ================================================================== real code */
#include "runtime/sink.c"

#include "spec.h"

#define CONTRACT_video_sink_thread(REQ, ENS, ASG, FRE)                                        \
    REQ(self == &g_sink && SINK_FRAME_OK(self) && self->is_running == 1)                      \
    ENS("[C04.appended-equals-consumed] the bytes handed to storage are exactly the bytes "  \
        "consumed from the channel, in order (a prefix of the committed stream)",             \
        kg.appended == kg.consumed && !kg.out_of_order && kg.consumed <= kg.committed)        \
    ENS("[C04.sink-drains-before-exit] a normal exit follows an empty read: everything "     \
        "committed up to that read was appended (after the stop flag, which the source "      \
        "raises after its last commit, that is everything)",                                  \
        IMPL(RET == 0, !kg.mapped && kg.appended == kg.committed))                            \
    ENS("[C09.no-append-after-failure] after a failed append nothing more is appended",      \
        kg.n_append_after_failure == 0)                                                       \
    ENS("[C09.source-told-to-stop] a failure tells the source to stop exactly once; a "      \
        "normal exit does not", kg.n_sig_stop_source == (RET ? 1 : 0))                        \
    ENS("[C09.storage-stopped,C07.storage-stopped] storage_stop is reached on every path "   \
        "and the device is not left running", kg.n_storage_stop >= 1 && !kg.sto_running)      \
    ENS("[C07.flags-cleared,C09.flags-cleared] both thread flags are cleared on return",     \
        self->is_running == 0 && self->is_stopping == 0)                                      \
    ENS("[C07.reader-left-unmapped,C06.reader-left-unmapped] the sink's reader holds no "    \
        "region on return", !kg.mapped)                                                       \
    ENS("[C09.failure-reported] exit code 1 iff an append or the final stop failed",         \
        RET == 0 || RET == 1)                                                                 \
    ASG()

/* ================================================================== harness */
void
h_video_sink_thread(void)
{
    memset(&kg, 0, sizeof(kg));
    /* any point of an acquisition: some bytes committed, a prefix of them consumed and appended */
    kg.committed = nd_ulong();
    kg.consumed = nd_ulong();
    VASSUME(kg.committed <= BIG && kg.consumed <= kg.committed);
    kg.appended = kg.consumed;
    g_producer_done = nd_bool();
    g_buf = malloc(1);
    VASSUME(g_buf != 0);
    memset(&g_sink, 0, sizeof(g_sink));
    g_sink.stream_id = nd_uchar();
    g_sink.sig_stop_source = cb_sig_stop_source;
    g_sink.storage = nd_bool() ? g_sto : 0;
    g_sink.write_delay_ms = nd_float();
    g_sink.is_running = 1;
    g_sink.is_stopping = g_producer_done ? nd_uchar() : 0;
    kg.sto_running = nd_bool();
    struct video_sink_s* self = &g_sink;
    int ret;
    VASSUME(g_sink.storage != 0); /* video_sink_start only spawns the thread with a started device */
    H_CALL(video_sink_thread, ret = video_sink_thread(self));
    VCOVER(ret == 0 && kg.appended > 0 && kg.appended == kg.committed && g_producer_done, "normal stop after appending everything");
    VCOVER(ret == 1 && kg.append_failed && kg.appended > 0, "append failure after some data");
    VCOVER(ret == 1 && !kg.append_failed, "final storage_stop fails");
    H_END;
}
