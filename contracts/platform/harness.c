/* C14/C16: contracts on the file functions of the real
 *   /repo/acquire-core-libs/src/acquire-core-platform/linux/platform.c
 * against a ghost model of the kernel interface (open/flock/ftruncate/pwrite/close).
 * platform.c is #included unmodified; errno is backed by a harness global through
 * __errno_location(); strerror and aq_logger are no-ops. */
#define _GNU_SOURCE
#include "verif.h"

#include <stddef.h>
#include <stdint.h>
#include <sys/types.h>

/* ------------------------------------------------------------------ ghost kernel */
static struct kernel_ghost
{
    int fd_open;      /* the descriptor this harness handed out is currently open */
    int fd;           /* its number (>= 0)                                         */
    int n_open, n_close, n_flock, n_trunc, n_pwrite;
    int foreign_close; /* close() was called on a number we do not own           */
    int foreign_write;
    size_t len;       /* ghost file length                                        */
    /* one ghost file position g_o: was it written, and with which byte           */
    size_t o;
    int o_written;
    uint8_t o_byte;
    int open_fails, flock_fails, trunc_fails;
} k;
static int g_errno;

int*
__errno_location(void)
{
    return &g_errno;
}

void
aq_logger(int is_error, const char* file, int line, const char* function, const char* fmt, ...)
{
}

char*
strerror(int e)
{
    return 0;
}

/* platform.c calls open() with three arguments; a variadic stub is not instrumented
 * correctly by DFCC (its assignments are rejected), so the call is routed to a plain
 * three-argument function by a macro defined before the #include. */
int
verif_open(const char* path, int flags, int mode)
{
    k.n_open++;
    if (k.open_fails) {
        g_errno = 13;
        return -1;
    }
    VASSERT(!k.fd_open, "[C16.closes-what-it-opens] open while the previous descriptor is still open (leak)");
    k.fd_open = 1;
    k.len = nd_ulong(); /* the path may already exist with any length */
    return k.fd;
}

int
flock(int fd, int op)
{
    VASSERT(k.fd_open && fd == k.fd, "[C16.only-own-descriptors] flock on a descriptor this device did not open");
    k.n_flock++;
    if (k.flock_fails) {
        g_errno = 11;
        return -1;
    }
    return 0;
}

int
ftruncate(int fd, off_t length)
{
    VASSERT(k.fd_open && fd == k.fd, "[C16.only-own-descriptors] ftruncate on a descriptor this device did not open");
    k.n_trunc++;
    if (k.trunc_fails) {
        g_errno = 5;
        return -1;
    }
    k.len = (size_t)length;
    if (k.o >= k.len)
        k.o_written = 0;
    return 0;
}

int
close(int fd)
{
    k.n_close++;
    if (!(k.fd_open && fd == k.fd)) {
        k.foreign_close++;
        VASSERT(0, "[C16.only-own-descriptors] close on a descriptor that is not an open descriptor of this device");
        return -1;
    }
    k.fd_open = 0;
    return nd_bool() ? 0 : -1;
}

ssize_t
pwrite(int fd, const void* buf, size_t n, off_t off)
{
    if (k.n_pwrite < 3)
        k.n_pwrite++; /* saturating */
    if (!(k.fd_open && fd == k.fd)) {
        k.foreign_write++;
        VASSERT(0, "[C16.only-own-descriptors] pwrite on a descriptor that is not an open descriptor of this device");
        return -1;
    }
    long r = nd_long(); /* error, nothing, or any short count */
    VASSUME(r >= -1 && r <= (long)n);
    if (r < 0) {
        /* any error number, EINTR included (a seeded change that treated EINTR as a
         * retry but still advanced by -1 was missed while this was the constant ENOSPC) */
        g_errno = nd_int();
        VASSUME(g_errno > 0 && g_errno < 134);
        return -1;
    }
    if (r > 0) {
        if ((size_t)off <= k.o && k.o < (size_t)off + (size_t)r) {
            k.o_written = 1;
            k.o_byte = ((const uint8_t*)buf)[k.o - (size_t)off];
        }
        if ((size_t)off + (size_t)r > k.len)
            k.len = (size_t)off + (size_t)r;
    }
    return r;
}

int
access(const char* path, int mode)
{
    int r = nd_bool() ? 0 : -1;
    if (r < 0)
        g_errno = nd_bool() ? 2 /*ENOENT*/ : 13;
    return r;
}

int
unlink(const char* path)
{
    return 0;
}

/* ================================================================== contracts */
#include "platform.h"

static const uint8_t* g_beg0;
static uint64_t g_off0;
static size_t g_n0;

#define FILE_OWNED(f) (k.fd_open && (f)->fid == k.fd)
#define CONTRACT_file_write(REQ, ENS, ASG, FRE)                                               \
    REQ(file != 0 && FILE_OWNED(file))                                                        \
    REQ(cur != 0 && __CPROVER_same_object(cur, end) && cur <= end && cur == g_beg0 &&         \
        (size_t)(end - cur) == g_n0 && g_n0 <= ((size_t)1 << 40) &&                           \
        __CPROVER_r_ok(cur, g_n0))                                                            \
    REQ(offset == g_off0 && offset <= ((uint64_t)1 << 50) && !k.o_written)                    \
    ENS("[C14.every-byte-at-its-offset] success: every byte of the packet is in the file "   \
        "at offset + its index, whatever the short-write pattern",                            \
        IMPL(RET == 1 && g_off0 <= k.o && k.o < g_off0 + g_n0,                                \
             k.o_written && k.o_byte == g_beg0[k.o - g_off0]))                                \
    ENS("[C14.nothing-outside-the-packet] nothing is written outside [offset, offset+n)",    \
        IMPL(k.o < g_off0 || k.o >= g_off0 + g_n0, !k.o_written))                             \
    ENS("[C14.partial-writes-in-place] also on failure, a byte that was written is the "     \
        "right byte at the right place",                                                      \
        IMPL(k.o_written, k.o_byte == g_beg0[k.o - g_off0]))                                  \
    ENS("[C16.failure-is-reported] a write error or three successive zero-length writes "    \
        "give 0; success is 1", RET == 0 || RET == 1)                                         \
    ENS("[C16.only-own-descriptors] the descriptor stays open and owned", FILE_OWNED(file))   \
    ASG(k, g_errno)

#define CONTRACT_file_create(REQ, ENS, ASG, FRE)                                              \
    REQ(file != 0 && filename != 0 && !k.fd_open && k.n_open == 0 && k.n_close == 0)          \
    ENS("[C16.closes-what-it-opens] success leaves exactly the new descriptor open; "        \
        "failure leaves none open (a descriptor whose lock failed is closed once)",           \
        RET ? (FILE_OWNED(file) && k.n_close == 0) : (!k.fd_open && k.n_close == (k.open_fails ? 0 : 1))) \
    ENS("[C16.failure-is-reported] a failing open, lock or truncate is reported",            \
        IMPL(k.open_fails || k.flock_fails || (k.trunc_fails && k.n_trunc > 0), RET == 0))                       \
    ENS("[C14.no-stale-tail] a created file is empty: bytes of an earlier, longer file "     \
        "under the same name do not survive",                                                 \
        IMPL(RET, k.len == 0 && !k.o_written))                                                \
    ENS("[C16.only-own-descriptors] no foreign descriptor is touched",                       \
        k.foreign_close == 0 && k.foreign_write == 0)                                         \
    ASG(k, g_errno, file->fid)

#define CONTRACT_file_close(REQ, ENS, ASG, FRE)                                               \
    REQ(file != 0 && FILE_OWNED(file) && k.n_close == 0)                                      \
    ENS("[C16.closes-what-it-opens] the descriptor is closed exactly once",                  \
        !k.fd_open && k.n_close == 1 && k.foreign_close == 0)                                 \
    ASG(k, g_errno)

#ifndef VERIF_NATIVE
int
file_write(const struct file* file, uint64_t offset, const uint8_t* cur, const uint8_t* end)
  DFCC_CONTRACT(file_write);
int
file_create(struct file* file, const char* filename, size_t bytesof_filename)
  DFCC_CONTRACT(file_create);
void
file_close(struct file* file) DFCC_CONTRACT(file_close);
#endif

#define open verif_open
#include "platform.c"
#undef open

/* ================================================================== harnesses */
static void
kernel_reset(void)
{
    __builtin_memset(&k, 0, sizeof(k));
    k.fd = nd_int();
    VASSUME(k.fd >= 0); /* any descriptor number the kernel may hand out, 0 included (a process started with stdin closed) */
    k.o = nd_ulong();
    g_errno = 0;
}

void
h_file_write(void)
{
    kernel_reset();
    k.fd_open = 1;
    k.n_open = 1;
    struct file f = { .fid = k.fd };
    const struct file* file = &f;
    size_t n = nd_ulong();
#ifdef VERIF_NATIVE
    VASSUME(n <= (1UL << 24));
#endif
    VASSUME(n <= ((size_t)1 << 40));
    uint8_t* buf = malloc(n ? n : 1);
    VASSUME(buf != 0);
    uint64_t offset = nd_ulong();
    const uint8_t* cur = buf;
    const uint8_t* end = buf + n;
    g_beg0 = buf;
    g_off0 = offset;
    g_n0 = n;
    int ret;
    H_CALL(file_write, ret = file_write(file, offset, cur, end));
    VCOVER(ret == 1 && n > 1 && k.n_pwrite > 1, "completed after a short write");
    VCOVER(ret == 0 && k.o_written, "failed after a partial write");
    VCOVER(ret == 1 && n == 0, "empty packet");
    H_END;
}

void
h_file_create(void)
{
    kernel_reset();
    k.open_fails = nd_bool();
    k.flock_fails = nd_bool();
    k.trunc_fails = nd_bool();
    struct file f = { .fid = nd_int() };
    struct file* file = &f;
    const char* filename = "x";
    size_t bytesof_filename = 2;
    int ret;
    H_CALL(file_create, ret = file_create(file, filename, bytesof_filename));
    VCOVER(ret, "created");
    VCOVER(!ret && k.n_close == 1, "lock failed, descriptor closed");
    VCOVER(!ret && k.n_close == 0, "open failed");
    H_END;
}

void
h_file_close(void)
{
    kernel_reset();
    k.fd_open = 1;
    k.n_open = 1;
    struct file f = { .fid = k.fd };
    struct file* file = &f;
    H_CALL(file_close, file_close(file));
    H_END;
}
