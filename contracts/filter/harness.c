/* C10: contracts on the real /repo/acquire-video-runtime/src/runtime/filter.c
 * (#included unmodified).
 * accumulate and normalize: unbounded pixel loops closed by external loop contracts with a
 * ghost pixel index, IEEE single precision is bit-precise in CBMC.
 * process_data / video_filter_thread: stub contracts for the channel operations. */
#include "verif.h"
#include "runtime/filter.h"
#include "runtime/frame_iterator.h"
#include "runtime/vfslice.h"
#include "runtime/throttler.h"
#include "device/props/components.h"

#include <stdlib.h>
#include <string.h>

void
aq_logger(int is_error, const char* file, int line, const char* function, const char* fmt, ...)
{
}

#define HDR sizeof(struct VideoFrame)
#define ALIGN8(n) (8 * (((n) + 7) / 8))
#define NPX_MAX ((size_t)1 << 36)

/* ghost pixel index and explicit old values */
static size_t g_k;
static float g_x0;   /* accumulator value at g_k before the call           */
static float g_add;  /* (float) of the input sample at g_k                 */
static float g_inv;
static size_t g_npx;
static int g_in_type, g_acc_type;
static uint64_t g_in_word0; /* first 8 input bytes, to show the input is untouched */

#define SUPPORTED_IN(t)                                                        \
    ((t) == SampleType_u8 || (t) == SampleType_u10 || (t) == SampleType_u12 || \
     (t) == SampleType_u14 || (t) == SampleType_u16 || (t) == SampleType_i8 || \
     (t) == SampleType_i16)

#define CONTRACT_accumulate(REQ, ENS, ASG, FRE)                                               \
    REQ(acc != 0 && in != 0 && g_npx <= NPX_MAX && (size_t)acc->shape.strides.planes == g_npx && \
        acc->shape.strides.planes >= 0 && g_k < g_npx)                                        \
    ENS("[C10.sum-is-exact-add] for an integer input type every accumulator pixel gains "    \
        "exactly the float value of the input pixel",                                         \
        IMPL(g_acc_type == SampleType_f32 && SUPPORTED_IN(g_in_type),                         \
             RET == 1 && ((float*)acc->data)[g_k] == g_x0 + g_add))                           \
    ENS("[C10.rejects-unsupported] a non-float accumulator or a float/unknown input type "   \
        "is rejected and nothing is added",                                                   \
        IMPL(!(g_acc_type == SampleType_f32 && SUPPORTED_IN(g_in_type)),                      \
             RET == 0 && (g_acc_type != SampleType_f32 || ((float*)acc->data)[g_k] == g_x0))) \
    ENS("[C10.input-untouched] the input frame is not modified",                             \
        in->shape.type == (enum SampleType)g_in_type)                                         \
    ASG()

/* The value clause needs "a == b implies a*c == b*c" for the bit-blasted float multiplier
 * once the loop contract has havocked the pixel array; no back end (minisat, cadical, z3,
 * cvc5, with and without --fpa) finished in 150 s. The unbounded loop-contract unit
 * therefore proves memory safety, the frame and termination only, and the value clause is
 * checked by complete unwinding for images of up to NORMALIZE_BOUND pixels (bounded). */
#ifdef NORMALIZE_BOUND
#define NORMALIZE_VALUE_CLAUSE 1 /* asserted per concrete pixel in the harness */
#elif defined(NORMALIZE_UNBOUNDED_VALUE)
#define NORMALIZE_VALUE_CLAUSE (((float*)acc->data)[g_k] == g_x0 * g_inv)
#else
#define NORMALIZE_VALUE_CLAUSE 1
#endif
#define CONTRACT_normalize(REQ, ENS, ASG, FRE)                                                \
    REQ(acc != 0 && g_npx <= NPX_MAX && (size_t)acc->shape.strides.planes == g_npx &&         \
        acc->shape.strides.planes >= 0 && g_k < g_npx && inverse_norm == g_inv)               \
    ENS("[C10.mean-is-sum-times-inverse] every pixel is multiplied by the inverse norm",     \
        NORMALIZE_VALUE_CLAUSE)                                                               \
    ASG()

/* ------------------------------------------------------------------ stubs for the thread level */
#include "stubs.h"

/* ================================================================== real code */
/* filter.c compares the 16-byte dims and the 32-byte strides with memcmp and only tests the
 * result against 0; CBMC's memcmp model is a loop (no contract inside the instrumented
 * iterator loop), so it is replaced by a loop-free word comparison for these two sizes. */
static int
verif_memcmp_words(const void* a, const void* b, size_t n)
{
    const uint64_t* p = (const uint64_t*)a;
    const uint64_t* q = (const uint64_t*)b;
    int differ = (p[0] != q[0]) || (p[1] != q[1]);
    if (n > 16)
        differ = differ || (p[2] != q[2]) || (p[3] != q[3]);
    return differ;
}
_Static_assert(sizeof(((struct ImageShape*)0)->dims) == 16 && sizeof(((struct ImageShape*)0)->strides) == 32, "sizes assumed by verif_memcmp_words");
#define memcmp(a, b, n) verif_memcmp_words(a, b, n)
#include "runtime/filter.c"
#undef memcmp

#include "thread_harness.h"

/* ================================================================== harnesses */
static struct VideoFrame*
arb_frame(size_t npx, size_t bytes_per_px)
{
    size_t n = HDR + npx * bytes_per_px;
    struct VideoFrame* f = malloc(n);
    VASSUME(f != 0);
    return f;
}

void
h_accumulate(void)
{
    g_npx = nd_ulong();
    VASSUME(g_npx >= 1 && g_npx <= NPX_MAX);
#ifdef VERIF_NATIVE
    VASSUME(g_npx <= (1UL << 20));
#endif
    g_k = nd_ulong();
    VASSUME(g_k < g_npx);
    g_acc_type = nd_uchar();
    g_in_type = nd_uchar();
    struct VideoFrame* acc = arb_frame(g_npx, 4);
    struct VideoFrame* inf = arb_frame(g_npx, 2);
    acc->shape.strides.planes = (int64_t)g_npx;
    acc->shape.type = (enum SampleType)g_acc_type;
    inf->shape.strides.planes = (int64_t)g_npx;
    inf->shape.type = (enum SampleType)g_in_type;
    g_x0 = ((float*)acc->data)[g_k];
    VASSUME(g_x0 == g_x0); /* not NaN: accumulators are finite sums of integer samples */
    switch (g_in_type) {
        case SampleType_u8:
            g_add = (float)((const uint8_t*)inf->data)[g_k];
            break;
        case SampleType_i8:
            g_add = (float)((const int8_t*)inf->data)[g_k];
            break;
        case SampleType_i16:
            g_add = (float)((const int16_t*)inf->data)[g_k];
            break;
        default:
            g_add = (float)((const uint16_t*)inf->data)[g_k];
            break;
    }
    const struct VideoFrame* in = inf;
    int ret;
    H_CALL(accumulate, ret = accumulate(acc, in));
    VCOVER(ret == 1 && g_in_type == SampleType_u8 && g_npx > 3, "u8 input");
    VCOVER(ret == 1 && g_in_type == SampleType_u14, "u14 input");
    VCOVER(ret == 1 && g_in_type == SampleType_i8 && g_add < 0, "negative i8 sample");
    VCOVER(ret == 1 && g_in_type == SampleType_i16 && g_npx == NPX_MAX, "i16 input, largest image");
    VCOVER(ret == 0 && g_in_type == SampleType_f32, "float input rejected");
    VCOVER(ret == 0 && g_acc_type != SampleType_f32, "non-float accumulator rejected");
    H_END;
}

void
h_normalize(void)
{
    g_npx = nd_ulong();
    VASSUME(g_npx >= 1 && g_npx <= NPX_MAX);
#ifdef VERIF_NATIVE
    VASSUME(g_npx <= (1UL << 20));
#endif
#ifdef NORMALIZE_BOUND
    g_npx = NORMALIZE_BOUND; /* literal */
#endif
    g_k = nd_ulong();
    VASSUME(g_k < g_npx);
    struct VideoFrame* acc = arb_frame(g_npx, 4);
    acc->shape.strides.planes = (int64_t)g_npx;
    g_x0 = ((float*)acc->data)[g_k];
    VASSUME(g_x0 - g_x0 == 0.0f); /* finite: a sum of at most 2^24 integer samples */
    float inverse_norm = nd_float();
    VASSUME(inverse_norm - inverse_norm == 0.0f);
    g_inv = inverse_norm;
#ifdef NORMALIZE_BOUND
    float saved[NORMALIZE_BOUND];
    for (unsigned k = 0; k < NORMALIZE_BOUND; ++k) {
        saved[k] = ((float*)acc->data)[k];
        VASSUME(saved[k] - saved[k] == 0.0f);
    }
#endif
    H_CALL(normalize, normalize(acc, inverse_norm));
#ifdef NORMALIZE_BOUND
    /* every pixel, with a concrete index (a symbolic index turns the check into a miter of
     * float multipliers that no back end closed) */
    for (unsigned k = 0; k < NORMALIZE_BOUND; ++k)
        VASSERT(((float*)acc->data)[k] == saved[k] * inverse_norm,
                "[C10.mean-is-sum-times-inverse] pixel k is multiplied by the inverse norm");
    VCOVER(g_k == NORMALIZE_BOUND - 1, "last pixel");
#else
    VCOVER(g_npx == NPX_MAX, "largest image");
#endif
    H_END;
}
