/* Specification vocabulary for the ring-buffer channel (C01-C03, used by C04-C07).
 * Everything here is a side-effect free macro over a `struct channel` VALUE, so the
 * same text serves DFCC contracts (pre/post over *self and the ghost snapshot), loop
 * invariants (expanded with gcc -E into the loop-contracts JSON), stub contracts used by
 * callers, and the native replay driver. */
#ifndef CHANNEL_SPEC_H
#define CHANNEL_SPEC_H

#define CAP_MAX (1ULL << 40)   /* machine-arithmetic bound, stated in the evidence */
#define CYCLE_MAX (1ULL << 62) /* the lap counter does not wrap                    */

/* 8 is the size of the table in channel.h; the bounded fallback unit channel.write_map.mono
 * lowers it with -DVERIF_MAX_READERS=3 (labelled bounded) */
#ifndef VERIF_MAX_READERS
#define VERIF_MAX_READERS 8
#endif

#define P_(c, i) ((c).holds.pos[i])
#define Y_(c, i) ((c).holds.cycles[i])
#define SAME_LAP(c, i) (Y_(c, i) == (c).cycle)
#define ONE_BEHIND(c, i) (Y_(c, i) + 1 == (c).cycle)

/* reader slot i is consistent with the writer's cursor */
#define RD_OK(c, i)                                                            \
    (SAME_LAP(c, i) ? (P_(c, i) <= (c).head)                                   \
                    : (Y_(c, i) < (c).cycle && ONE_BEHIND(c, i) &&             \
                       (c).mapped <= P_(c, i) && P_(c, i) <= (c).high))

#define BASE_OK(c)                                                             \
    ((c).capacity >= 1 && (c).capacity <= CAP_MAX && (c).head <= (c).mapped && \
     (c).mapped <= (c).capacity && (c).high <= (c).capacity &&                 \
     (c).holds.n <= VERIF_MAX_READERS)

/* "for every registered reader": 8-way expansion, no quantifier reaches the solver */
#define ALL8(c, PRED)                                                          \
    (((c).holds.n <= 0 || PRED(c, 0)) && ((c).holds.n <= 1 || PRED(c, 1)) &&   \
     ((c).holds.n <= 2 || PRED(c, 2)) && ((c).holds.n <= 3 || PRED(c, 3)) &&   \
     ((c).holds.n <= 4 || PRED(c, 4)) && ((c).holds.n <= 5 || PRED(c, 5)) &&   \
     ((c).holds.n <= 6 || PRED(c, 6)) && ((c).holds.n <= 7 || PRED(c, 7)))
/* two-state version: PRED(old, new, i) for every reader registered in `o` */
#define ALL8_2(o, c, PRED)                                                     \
    (((o).holds.n <= 0 || PRED(o, c, 0)) && ((o).holds.n <= 1 || PRED(o, c, 1)) && \
     ((o).holds.n <= 2 || PRED(o, c, 2)) && ((o).holds.n <= 3 || PRED(o, c, 3)) && \
     ((o).holds.n <= 4 || PRED(o, c, 4)) && ((o).holds.n <= 5 || PRED(o, c, 5)) && \
     ((o).holds.n <= 6 || PRED(o, c, 6)) && ((o).holds.n <= 7 || PRED(o, c, 7)))

/* the monitor invariant */
#define INV(c) (BASE_OK(c) && ALL8(c, RD_OK))

/* ---- the unread path of reader i: at most two physical intervals
 *   same lap  : [p, head)
 *   one behind: [p, high) ++ [0, head)                                          */
#define A_LEN(c, i) (SAME_LAP(c, i) ? (c).head - P_(c, i) : (c).high - P_(c, i))
#define B_LEN(c, i) (SAME_LAP(c, i) ? (size_t)0 : (c).head)
#define UNREAD(c, i) (A_LEN(c, i) + B_LEN(c, i))
/* normalised: empty intervals dropped, so equal normal forms <=> equal byte sequences */
#define N1_LEN(c, i) (A_LEN(c, i) > 0 ? A_LEN(c, i) : B_LEN(c, i))
#define N1_LO(c, i) (A_LEN(c, i) > 0 ? P_(c, i) : (size_t)0)
#define N2_LEN(c, i) (A_LEN(c, i) > 0 ? B_LEN(c, i) : (size_t)0)
#define DRAINED(c, i) (UNREAD(c, i) == 0)

/* same byte sequence, same physical place */
#define PATH_SAME(o, c, i)                                                     \
    (N1_LEN(o, i) == N1_LEN(c, i) && N2_LEN(o, i) == N2_LEN(c, i) &&           \
     (N1_LEN(o, i) == 0 || N1_LO(o, i) == N1_LO(c, i)))
/* c's path is o's path with d bytes appended at the END (d = c.head - o.head) */
#define PATH_EXTENDED(o, c, i)                                                 \
    (UNREAD(c, i) == UNREAD(o, i) + ((c).head - (o).head) &&                   \
     P_(c, i) == P_(o, i) && Y_(c, i) == Y_(o, i))
#define SLOT_SAME(o, c, i) (P_(c, i) == P_(o, i) && Y_(c, i) == Y_(o, i))

/* fields only the (single) writer changes */
#define WRITER_FIELDS_SAME(o, c)                                               \
    ((c).data == (o).data && (c).capacity == (o).capacity &&                   \
     (c).head == (o).head && (c).high == (o).high && (c).cycle == (o).cycle && \
     (c).mapped == (o).mapped)

/* ite-chain selection: a symbolic index into the reader table inside several clauses
 * stalled CBMC (DESIGN sec. 2) */
#define SEL8(a, j)                                                             \
    ((j) == 0 ? (a)[0] : (j) == 1 ? (a)[1] : (j) == 2 ? (a)[2] : (j) == 3 ? (a)[3] : \
     (j) == 4 ? (a)[4] : (j) == 5 ? (a)[5] : (j) == 6 ? (a)[6] : (a)[7])
#define PJ(c, j) SEL8((c).holds.pos, j)
#define YJ(c, j) SEL8((c).holds.cycles, j)
#define SAME_LAPJ(c, j) (YJ(c, j) == (c).cycle)
#define A_LENJ(c, j) (SAME_LAPJ(c, j) ? (c).head - PJ(c, j) : (c).high - PJ(c, j))
#define B_LENJ(c, j) (SAME_LAPJ(c, j) ? (size_t)0 : (c).head)
#define UNREADJ(c, j) (A_LENJ(c, j) + B_LENJ(c, j))
#define N1_LENJ(c, j) (A_LENJ(c, j) > 0 ? A_LENJ(c, j) : B_LENJ(c, j))
#define N1_LOJ(c, j) (A_LENJ(c, j) > 0 ? PJ(c, j) : (size_t)0)
#define N2_LENJ(c, j) (A_LENJ(c, j) > 0 ? B_LENJ(c, j) : (size_t)0)

/* A mapped reader's cursor (rp, ry) against its slot j: the bytes it holds are
 * [p_j, rp) of its lap, or [p_j, high) for the lap-roll mapping. */
#define MAPPED_OK(c, j, rp, ry)                                                \
    (((ry) == YJ(c, j) && PJ(c, j) < (rp) &&                                   \
      (((ry) == (c).cycle && (rp) <= (c).head) ||                              \
       ((ry) + 1 == (c).cycle && (rp) <= (c).high))) ||                        \
     ((rp) == 0 && (ry) == YJ(c, j) + 1 && (ry) == (c).cycle &&                \
      PJ(c, j) < (c).high))
/* number of bytes a mapped reader holds */
#define HELD_LEN(c, j, rp, ry)                                                 \
    (((ry) == YJ(c, j)) ? (rp)-PJ(c, j) : (c).high - PJ(c, j))


#define ALL_SAME(o, c)                                                         \
    (WRITER_FIELDS_SAME(o, c) && (c).holds.n == (o).holds.n &&                 \
     ALL8_2(o, c, SLOT_SAME) &&                                                \
     (c).is_accepting_writes == (o).is_accepting_writes)

/* the arbitrary other reader of the harness (ghost gh.peer_*) keeps its region */
#define PEER_OK(c)                                                             \
    (!gh.peer_mapped || MAPPED_OK(c, gh.peer_j, gh.peer_pos, gh.peer_cycle))

#endif
