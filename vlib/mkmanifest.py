#!/usr/bin/env python3
"""Regenerates /verif/MANIFEST.json from the per-property table below.
A property is claimed only when CLAIMS has an entry for it; every other property is listed
under not_applicable with its reason."""
import json
import os

VERIF = os.path.dirname(os.path.dirname(os.path.abspath(__file__)))

TECH = "CBMC 6.11 code contracts (goto-instrument --dfcc) enforced per function on the real /repo sources"

CLAIMS = {
    "C01": {
        "text": "Every operation of channel.c is enforced against a contract over the abstract view 'unread path of reader i' (at most two physical intervals, normalised): write_map keeps every path, write_unmap appends the written region at the end of every path, abort adds nothing, read_map returns exactly the first interval and an empty slice only when the path is empty, read_unmap removes exactly min(consumed, held) bytes from the front; all preserve the monitor invariant (asserted at every lock release and wait) and touch no other reader's slot. Sizes are symbolic up to 2^40, 0..8 readers by 8-way expansion, the writer's wait loop is closed by a loop contract with an environment-havoc wait stub, so all interleavings reduce to sequences of critical sections; induction over the history gives the property.",
        "note": "Assumes pthread mutual exclusion / cond-var semantics (stubs implement the monitor rule), a single writer per channel, capacity <= 2^40, lap counter < 2^62, memory_alloc succeeds. The induction from per-operation contracts to 'the reader obtains exactly the committed byte sequence' is a paper argument.",
        "design": "5/C01",
    },
    "C02": {
        "text": "next_write (with reader_min and cursor_cmp under their own contracts, replaced modularly) is proved to grant only regions inside the buffer that overlap no unread byte of any reader, to keep every reader at most one lap behind and to reset readers only when all are drained at the head; channel_write_map returns exactly [head', mapped') and the invariant (which contains mapped <= p_i for readers one lap behind) makes the guarantee stable until the commit; read_map hands out a slice inside the unread path with a cursor satisfying MAPPED_OK, and every writer operation is proved to preserve MAPPED_OK of an arbitrary other mapped reader (non-interference).",
        "note": "Same trusted base as C01. The callers' single-writer discipline is a precondition here and is checked at the call sites in the source/filter units. reader_min's loop is closed by complete unwinding (n <= 8 from the invariant, unwinding assertion on). channel.write_map.mono re-checks channel_write_map with its helpers inlined (no helper contracts: robust against helper refactoring) for at most 3 readers: a bounded stand-in listed under 'bounded'.",
        "design": "5/C02",
    },
    "C03": {
        "text": "Safety half of 'no lost wake-up', all machine-checked on the real code: the writer sleeps only inside a re-check loop (loop contract) while writes are accepted; it returns NULL whenever it observes the refuse flag after a wake-up; a ghost lock/notify discipline automaton in the platform stubs proves that every change that can enable the writer (a reader hold moving, the refuse signal) is written, then published by a lock release, then notified, in read_map, read_unmap and accept_writes; loop-free full-domain progress lemmas: next_write finds space whenever all readers are drained at the head and the request is below the capacity, and three map/unmap rounds drain any reader into that state.",
        "note": "Not decided by this technique: fair scheduling and termination of the wait (liveness); pthread_cond semantics are assumed. The meta-theorem 'discipline implies no lost wake-up' is a paper argument (DESIGN 4.2).",
        "design": "5/C03",
    },
    "C11": {
        "text": "Every HAL wrapper in camera.c, storage.c and driver.c carries a DFCC-enforced contract against a ghost protocol driver with nondeterministic return codes: AGREE(HAL state, driver typestate) is preserved by each call, each call makes exactly the legal driver calls, one close per open on every path, no access to a freed device. All functions are loop-free, so the proofs are unbounded; induction over the call sequence gives all finite histories.",
        "note": "Assumes: a driver whose open() fails opened nothing; driver.close releases the object; storage drivers declare their own state (a Running answer from set counts as started); device_manager_get_driver (C++) stubbed; CBMC/goto-cc semantics.",
        "design": "5/C11",
    },
    "C13": {
        "text": "copy_string is enforced (DFCC) against its full contract for symbolic lengths up to 2^30, NULL/empty/borrowed/owned/unterminated strings and failing allocations: deep copy, NUL at the recorded length, source untouched, no aliasing, block accounting on a ghost live-block counter (malloc/realloc/free routed through counting wrappers) so that every replaced block is released exactly once and borrowed memory never. Every public operation (init, set_uri, set_external_metadata, set_access_key_and_secret, set_dimension, set_enable_multiscale, copy, destroy) is checked against a contract stating well-formedness preserved, exactly the named field changed, deep and complete copies, source bit-identical and still alive, and block accounting. Well-formedness preservation plus per-operation leak freedom gives all init/set/copy/destroy sequences by induction.",
        "note": "The operations that walk the dimension array (copy, set_dimension, destroy, init) are case-split on 0..2 dimensions with literal counts (CBMC's memset model mis-handles a symbolic element count and a symbolic count ran out of memory) and use 2-byte string blocks: those units are reported under 'bounded', not counted as proved; in copy and set_dimension copy_string is replaced by a stub contract that is itself proved to satisfy CONTRACT_copy_string. Contracts of the top-level operations are checked by assume/assert around the call rather than DFCC write-set instrumentation (which ran out of memory). Self-copy (dst == src) is excluded by precondition.",
        "design": "5/C13",
    },
    "C14": {
        "text": "file_write is enforced (DFCC) with a loop contract over its retry loop against a ghost kernel whose pwrite returns an error, zero, or any short count: on success every byte of the packet is in the file at offset+index, nothing outside the packet is written, and the lexicographic variant (remaining, retries) proves the loop terminates; file_create is proved to leave an empty file (no stale tail). raw_start/raw_append/raw_stop/raw_set are checked against contracts over a ghost file (stub contracts of the file functions carrying the same clauses): a packet lands at [offset, offset+n) and the offset advances by n, each start begins at offset 0 of the file named by the stored URI, the stored URI is the plain path for both spellings. Packet sizes and offsets are symbolic (2^40 / 2^50); induction over set/start/append*/stop cycles gives 'file == concatenation of the appended packets'.",
        "note": "Kernel behaviour is modelled (ghost kernel); the URI unit is bounded to 24-byte strings; raw.c entry points are checked by assume/assert around the call with stub contracts for platform/props callees whose real bodies are verified in their own units. The final concatenation argument is an induction on paper.",
        "design": "5/C14",
    },
    "C16": {
        "text": "A ghost descriptor-ownership model (which descriptor the device opened, whether it is open) sits in the stubs of open/flock/ftruncate/pwrite/close and of file_create/file_write/file_close: every close or write on a descriptor the device does not own and hold open is a failed obligation. file_create closes a descriptor whose lock or truncate failed exactly once and reports failure; file_close closes once; raw_init/start/stop/append/destroy preserve the representation invariant 'is_open iff the ghost file is open and fid is that descriptor', so every life-cycle history (never started, repeated start/stop, close while running) closes exactly what it opened exactly once; a failing write makes raw_append leave the running state within the same call with one write attempt; the HAL turns any non-running answer into Device_Err (C11 units). trash has no descriptors; its entry points are checked directly.",
        "note": "Not claimed: tiff and tiff-json (C++: tiff.cpp, side-by-side-tiff.cpp cannot be parsed by CBMC), including their unbounded stop()/write_() recursion. trash_append's frame walk and the raw life-cycle history unit are bounded stand-ins (K=4 frames; 5 calls) reported under 'bounded'.",
        "design": "5/C16",
    },
    "C04": {
        "text": "Three machine-checked pieces on the real code plus a paper composition. (1) video_source_thread under an external loop contract (any number of iterations, a camera failure at any iteration, the stop flag re-havocked every iteration): every committed frame has frame_id = number of frames committed before it, the shape and hardware id/timestamp the camera reported, bytes_of_frame = the write size = header + image bytes rounded up to 8, pixel bytes exactly as the camera wrote them; at most max_frame_count frames; the stop signals are raised exactly once each after the last commit; single-writer discipline at every call site. (2) video_sink_thread with loop contracts on all three real loops: storage is handed a prefix of the region the reader holds, bytes appended == bytes consumed, in stream order, and a normal exit follows an empty read, which by the channel contract (C01.empty-means-drained, enforced on channel_read_map) means everything committed was appended. (3) acquire_init wires each stream's source to its own filter and sink channels. Composition (source commits 0..N-1 then raises the flag; sink drains before exit; stop joins) is the four-line argument of DESIGN sec. 5/C04.",
        "note": "Channel, HAL, bytes_of_image and vfslice_split are stub contracts in the worker units; their real bodies are enforced in channel.*, hal.*, misc.* units. Assumes sequentially consistent flag accesses and that a delivered frame has the shape last reported (C17). Not decided: the relative order of the filter's and the sink's final flush when averaging is on (a schedule property).",
        "design": "5/C04",
    },
    "C05": {
        "text": "Producers: the source (source.thread) and the filter (filter.process_data) request and commit only sizes that are multiples of 8 and equal to header + image bytes rounded up, with bytes_of_frame equal to the committed size and the reported shape in the header; bytes_of_type/bytes_of_image are enforced against the table in the property; the rounding lemma and sizeof(VideoFrame) % 8 == 0 are proved for all sizes up to 2^48; frame_iterator_next steps by exactly bytes_of_frame and ends cleanly.",
        "note": "The chain-walking loops (vfslice_split_at_delay_ms, trash_append) are bounded stand-ins (packets of up to 3-4 frames of arbitrary sizes), reported under 'bounded'. Alignment of slice starts rests on the channel contracts (slices start at 0, at an earlier slice end or at start+consumed) and on the client consuming whole frames (assumed).",
        "design": "5/C05",
    },
    "C06": {
        "text": "acquire_map_read / acquire_unmap_read are proved to be exactly one channel_read_map / channel_read_unmap on the stream's own monitor reader after argument validation (so the client inherits C01/C02 for its reader and, by the frame clauses of the reader operations, cannot change what the sink reader sees); acquire_stop / acquire_abort, from an arbitrary runtime state satisfying the runtime invariant (including a client that still holds a mapped region), end with the monitor reader unmapped, drained and status Ok, so nothing of the ended acquisition is delivered later and map/unmap keep working; the flush loop is closed by complete unwinding (at most 3 reads, which the channel lemma channel.lemma_three_rounds_drain proves for the real reader operations).",
        "note": "The monitor reader is abstracted to 0..2 unread intervals in the acquire units (justified by C01: at most two physical intervals). Pixel freshness across threads rests on C01/C02.",
        "design": "5/C06",
    },
    "C07": {
        "text": "State half, machine-checked: from every runtime state satisfying the invariant, acquire_stop and acquire_abort end with all three workers of every valid stream joined, camera and storage not running, the sink channel accepting writes again, the monitor reader drained and unmapped, and the runtime Armed; abort refuses writes and fires the trigger first. Every path through the three worker bodies clears is_running/is_stopping, stops its device and leaves no reader mapped (source.thread, sink.thread, filter.thread). A ghost 'will this join return' obligation in the thread_join stub proves that no worker is ever joined that nobody has told or will tell to stop (this is what a failed acquire_start used to violate). A second ghost obligation there ties abort's release-by-refusal to the joins: once abort has refused writes on the sink channel it keeps refusing until the source and the filter (the workers that write into it) are joined; a third one forbids raising the filter/sink stop flags while the source body still runs.",
        "note": "NOT decided: that abort/stop return in finite time. Termination of the joins needs the workers to terminate, which needs scheduler fairness, the liveness half of C03 and the camera's wake-up; only the safety obligations listed are proved. filter.thread and filter.process_data are bounded stand-ins.",
        "design": "5/C07",
    },
    "C08": {
        "text": "A runtime representation invariant RI (wiring; a device slot is NULL or an open device; a device is Running only on behalf of an unjoined worker; a worker that uses a device has it; no sink/filter worker without a source worker or a stop request; monitor status Ok) is proved to be preserved by acquire_init, configure, start, stop, abort, get_state, execute_trigger, map_read, unmap_read and to be consumed by shutdown, on the real acquire.c composed with the real controller code of source.c/sink.c/filter.c, from an arbitrary state satisfying RI. Devices are heap objects freed by close, so a second close or any later use is a memory-safety failure; shutdown closes every open device exactly once after joining all workers; cameras and storage are started only when Armed; get_state reports Running only while a worker is alive. Induction over the client program gives all programs.",
        "note": "Known finding (listed in known_findings.json, not repaired): acquire_configure with a different device identifier while the acquisition runs closes the device under its live worker. Both streams are arbitrary in every unit; the arbitrary runtime is any heap runtime satisfying RI (stored settings and channel internals zero); the specification text (ri.h) is compiled without CBMC's pointer checks, the real code and all stubs keep them. HAL functions are stub contracts with a ghost typestate (real HAL enforced in hal.*); worker bodies are not executed, thread_join applies their proved exit effects; thread creation is assumed to succeed; device_manager (C++) stubbed.",
        "design": "5/C08",
    },
    "C09": {
        "text": "Source body with camera_get_frame failing at any iteration: nothing is committed in or after that iteration, the stop signals are raised, the camera is stopped exactly once, flags are cleared, exit code 1. Sink body with storage_append failing at any call: no further append, the source is told to stop exactly once, the reader is unmapped with nothing consumed, storage_stop is reached, flags cleared. HAL: a failed frame call stops and demotes the camera, a non-running answer from append becomes Device_Err (hal.*); raw_append reports a failed write within the same call (raw.append). acquire_get_state reports Armed once all flags are clear (acquire.get_state).",
        "note": "NOT decided: that stop/abort return when the source is asleep on a full ring whose sink has died (liveness).",
        "design": "5/C09",
    },
    "C10": {
        "text": "accumulate: for every integer sample type an unbounded pixel loop under an external loop contract with a ghost pixel index proves acc[k]' == acc[k] + (float)in[k] bit-precisely in IEEE single, the input untouched, float/unknown types rejected, with a termination variant. process_data (arbitrary pending window state, window size k >= 2): every iterated frame is added exactly once while the output accepts writes, a window's first add lands on zeroed pixels (the filter zeroes the recycled ring memory - fixed defect), emission exactly when k frames were added with inverse norm 1/k, the emitted frame is f32 with the first frame's id and size header+4*pixels rounded to 8, the input slice is fully consumed, a reset drops the pending window and is acknowledged once. video_filter_thread commits a trailing window exactly once and clears its flags.",
        "note": "normalize: memory safety, frame and termination are proved unbounded; its value clause (x*inv) is a bounded stand-in (4 pixels, cvc5 FPA) because no back end closes an equality of two float multipliers; the 1/k clause of process_data is checked for literal k in {2,3,4}. process_data and the thread body are bounded (at most 3 frames per packet / 3 polling iterations) because goto-instrument --dfcc crashes after --replace-calls. Exactness of the float sum needs k*max|y| <= 2^24 (stated). Not decided: the filter's final flush vs the sink's (schedule).",
        "design": "5/C10",
    },
    "C12": {
        "text": "C side only: basic_device_describe is the 7-entry table of the property (ids echoed, cameras 0-2, storage 3-6, names terminated; anything else Device_Err with the identifier untouched); basic_device_open constructs exactly the device kind that describe reports for that id, once, and rejects unknown ids and NULL out pointers without constructing anything; basic_device_close dispatches on the same partition; driver_open_device yields the identifier described for the id (hal unit); driver_load returns NULL for an absent library, a missing entry point or a failing init after closing an opened library exactly once and freeing its memory (leak check on), the loader forwarders return errors without calls when the inner driver is gone.",
        "note": "NOT covered: pattern selection (first match, whole-name, case-insensitive), malformed patterns, NUL-padded names, out-of-range device_manager_get indices and exception barriers live in device.manager.cpp (C++: std::regex, std::vector, exceptions), which CBMC cannot parse. A change there is not detected.",
        "design": "5/C12",
    },
    "C17": {
        "text": "simcam_set (case split on binning 0,1,2,...,128 and a non-power): non-powers of two rejected with nothing changed; otherwise the shape in effect is the request clamped to [1, 8192/binning], one channel/plane, dense strides, the properties read back are the ones in effect, and both buffers are at least as large as the full-resolution frame the streamer renders (fixed defect: they used to be sized for the binned frame). simcam_get_frame rejects short buffers and stopped cameras without writing, otherwise copies exactly bytes_of_image(shape) bytes (guard byte behind them untouched) and reports the shape. im_fill_rand is proved to write exactly aligned_bytes_of_image bytes (loop contract with variant). The streamer body hands its render calls only the render buffer with a capacity covering the shape passed. The remaining size inequalities (bin2 halvings in int arithmetic, binned copy) are decided by exhaustive native enumeration of all 715,816,960 accepted configurations on the compiled repository functions.",
        "note": "Assumed, never enforced: bin2 (AVX2 in the product build), im_fill_pattern_* (C++), popcount_u8 (C++), pcg32_random. The streamer unit is bounded (3 iterations, binning in {1,2,8,128}); the size lemma is a native enumeration, not a CBMC proof; both are listed under 'bounded'. Not claimed: pixel values; reconfiguration while running (data race).",
        "design": "5/C17",
    },
    "C18": {
        "text": "simcam_start resets both frame counters to -1 and spawns one streamer; simcam_get_frame (wait loop under a loop contract, environment may publish frames and stop the camera at every wake-up): a delivered frame has hardware id == frame_id > the id delivered before, which becomes the last delivered id; a frame call that observes the stop writes neither the caller's buffer nor the frame info (the frame rendered for stop's own wake-up trigger is never delivered); simcam_execute_trigger sets the trigger under the lock and notifies; simcam_stop clears is_running, passes the lock, then notifies frame_ready and trigger_ready (ghost lock/notify discipline automaton: a frame call or the streamer about to sleep cannot miss it) and joins exactly once. Streamer body: published ids only grow and count every generated frame; with the frame trigger enabled the number of generated frames never exceeds the number of triggers fired.",
        "note": "NOT decided: that stop returns (join termination) and scheduler fairness. The streamer unit is bounded (3 iterations, 3 spurious wake-ups) and case-split on binning.",
        "design": "5/C18",
    },
}

NOT_YET = "no contract units registered yet in this commit (under construction; see DESIGN.md sec. 11)"

NA = {
    "C15": "tiff.cpp / side-by-side-tiff.cpp are C++ (std::string, lambdas, std::filesystem, inheritance from the C struct); CBMC's C++ front end cannot parse them and a C look-alike would be a model, which this technique excludes (DESIGN.md C15)",
}


def main():
    props = [json.loads(l) for l in open(os.path.join(VERIF, "properties.jsonl"))]
    checks = []
    na = []
    for p in props:
        pid = p["id"]
        if pid in CLAIMS:
            c = CLAIMS[pid]
            checks.append({
                "property_id": pid,
                "quick_cmd": "./check %s --tier quick" % pid,
                "thorough_cmd": "./check %s --tier thorough" % pid,
                "evidence_file": "/verif/evidence/%s.json" % pid,
                "replay_cmd_template": "./check %s --replay {path}" % pid,
                "engine": "cbmc-dfcc",
                "level_claimed": {"category": c.get("category", "proof"), "text": c["text"],
                                  "design_ref": "DESIGN.md sec. " + c["design"]},
                "level_note": c["note"],
                "technique": c.get("technique", TECH),
            })
        else:
            na.append({"property_id": pid, "reason": NA.get(pid, NOT_YET)})
    m = {
        "version": 1,
        "setup_cmd": "true",
        "hooks": {
            "guard": "ACQUIRE_COMMON_VERIF",
            "enable": "unused: contracts, loop invariants and stubs are attached from /verif (prior declarations, --loop-contracts-file); /repo carries no hooks, so guard-off is the plain build",
            "baseline_off_cmd": "cmake --build /repo/_build && ctest --test-dir /repo/_build -j8 --timeout 900",
            "source_commits": [],
            "add_only": True,
        },
        "engines": [{"name": "cbmc-dfcc", "path": "/verif/vlib",
                     "serves_properties": sorted(CLAIMS),
                     "kind_free_text": "contract-based deductive verification: goto-cc on harnesses that #include the real .c files, goto-instrument --dfcc (function + loop contracts), cbmc SAT back end, native ASan replay of counterexamples"}],
        "checks": checks,
        "not_applicable": na,
        "notes": "Exit codes: 0 all obligations discharged; 1 VIOLATION; 2 tooling / undecided (timeout, a harness that no longer builds, vacuity, a changed loop structure for which the bounded fall-back run found nothing) - never a violation. When a loop header is rewritten the loop contract is bound by position and only tagged obligations count; when loops were added or removed the unit is re-run bounded without loop contracts and only failing tagged obligations are reported (DESIGN 12.5). known_findings.json lists recorded findings and fixed defects; seeded/ holds 50 confirmed property-breaking changes (all reported), benign/ 10 behaviour-preserving refactorings (all quiet); the thorough tier replays both sets.",
    }
    json.dump(m, open(os.path.join(VERIF, "MANIFEST.json"), "w"), indent=1)


if __name__ == "__main__":
    main()
