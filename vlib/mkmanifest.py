#!/usr/bin/env python3
"""Regenerates /verif/MANIFEST.json from the per-property table below.
A property is claimed only when CLAIMS has an entry for it; every other property is listed
under not_applicable with its reason."""
import json
import os

VERIF = os.path.dirname(os.path.dirname(os.path.abspath(__file__)))

TECH = "CBMC 6.11 code contracts (goto-instrument --dfcc) enforced per function on the real /repo sources"

CLAIMS = {
    "C11": {
        "text": "Every HAL wrapper in camera.c, storage.c and driver.c carries a DFCC-enforced contract against a ghost protocol driver with nondeterministic return codes: AGREE(HAL state, driver typestate) is preserved by each call, each call makes exactly the legal driver calls, one close per open on every path, no access to a freed device. All functions are loop-free, so the proofs are unbounded; induction over the call sequence gives all finite histories.",
        "note": "Assumes: a driver whose open() fails opened nothing; driver.close releases the object; storage drivers declare their own state (a Running answer from set counts as started); device_manager_get_driver (C++) stubbed; CBMC/goto-cc semantics.",
        "design": "5/C11",
    },
}

NOT_YET = "no contract units registered yet in this commit (under construction; see DESIGN.md sec. 11)"

NA = {
    "C15": "tiff.cpp / side-by-side-tiff.cpp are C++ (std::string, lambdas, std::filesystem, inheritance from the C struct); CBMC's C++ front end cannot parse them and a C look-alike would be a model, which this technique excludes (DESIGN.md C15)",
}


def main():
    props = [json.loads(l) for l in open(os.path.join(VERIF, "properties.jsonl"))]
    checks = []
    na = []
    for p in props:
        pid = p["id"]
        if pid in CLAIMS:
            c = CLAIMS[pid]
            checks.append({
                "property_id": pid,
                "quick_cmd": "./check %s --tier quick" % pid,
                "thorough_cmd": "./check %s --tier thorough" % pid,
                "evidence_file": "/verif/evidence/%s.json" % pid,
                "replay_cmd_template": "./check %s --replay {path}" % pid,
                "engine": "cbmc-dfcc",
                "level_claimed": {"category": c.get("category", "proof"), "text": c["text"],
                                  "design_ref": "DESIGN.md sec. " + c["design"]},
                "level_note": c["note"],
                "technique": c.get("technique", TECH),
            })
        else:
            na.append({"property_id": pid, "reason": NA.get(pid, NOT_YET)})
    m = {
        "version": 1,
        "setup_cmd": "true",
        "hooks": {
            "guard": "ACQUIRE_COMMON_VERIF",
            "enable": "unused: contracts, loop invariants and stubs are attached from /verif (prior declarations, --loop-contracts-file); /repo carries no hooks, so guard-off is the plain build",
            "baseline_off_cmd": "cmake --build /repo/_build && ctest --test-dir /repo/_build -j8 --timeout 900",
            "source_commits": [],
            "add_only": True,
        },
        "engines": [{"name": "cbmc-dfcc", "path": "/verif/vlib",
                     "serves_properties": sorted(CLAIMS),
                     "kind_free_text": "contract-based deductive verification: goto-cc on harnesses that #include the real .c files, goto-instrument --dfcc (function + loop contracts), cbmc SAT back end, native ASan replay of counterexamples"}],
        "checks": checks,
        "not_applicable": na,
        "notes": "Exit codes: 0 all obligations discharged; 1 VIOLATION; 2 tooling (timeout, locator, vacuity) - never a violation. known_findings.json lists recorded findings and fixed defects.",
    }
    json.dump(m, open(os.path.join(VERIF, "MANIFEST.json"), "w"), indent=1)


if __name__ == "__main__":
    main()
