#ifndef SOURCE_SPEC_H
#define SOURCE_SPEC_H
#define SRC_FRAME_OK(s)                                                                       \
    ((s)->camera == g_cam && (s)->to_sink == &g_to_sink && (s)->to_filter == &g_to_filter &&  \
     (s)->await_filter_reset == cb_await_filter_reset &&                                      \
     (s)->sig_stop_filter == cb_sig_stop_filter && (s)->sig_stop_sink == cb_sig_stop_sink &&  \
     (s)->max_frame_count == g_max0)
#endif
