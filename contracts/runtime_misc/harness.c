/* C05 (and helpers used by C04/C10/C17): contracts on the real
 *   device/props/components.c   (bytes_of_type, bytes_of_image)
 *   runtime/frame_iterator.c     (frame_iterator_init, frame_iterator_next)
 *   runtime/vfslice.c            (make_vfslice, vfslice_split_at_delay_ms)
 * all #included unmodified; the clock functions used by vfslice.c are stubs. */
#include "verif.h"
#include "device/props/components.h"
#include "runtime/frame_iterator.h"
#include "runtime/vfslice.h"
#include "platform.h"

#include <stdlib.h>
#include <string.h>

#define HDR sizeof(struct VideoFrame)
#define ALIGN8(n) (8 * (((n) + 7) / 8))

/* clock stubs: vfslice_split_at_delay_ms only compares timestamps with "now - delay" */
static uint64_t g_now;
void
clock_init(struct clock* clock)
{
    clock->origin = g_now;
}
static uint64_t g_deadline; /* "now - delay" as computed by the function under test */
void
clock_shift_ms(struct clock* clock, double ms)
{
    clock->origin = nd_ulong(); /* any instant */
    g_deadline = clock->origin;
}
int8_t
clock_cmp(struct clock* clock, uint64_t timestamp)
{
    const uint64_t o = clock->origin;
    return (timestamp < o) ? -1 : ((timestamp > o) ? 1 : 0);
}

static int g_type;
static size_t g_expected_bpp;
#define CONTRACT_bytes_of_type(REQ, ENS, ASG, FRE)                                            \
    ENS("[C05.bytes-per-sample] bytes_of_type is 1 for u8/i8, 4 for f32, 2 for the 16-bit "  \
        "and packed 10/12/14-bit types and 0 for anything else",                              \
        RET == ((unsigned)type == SampleType_u8 || (unsigned)type == SampleType_i8                  \
                  ? (size_t)1                                                                 \
                : (unsigned)type == SampleType_f32 ? (size_t)4                                \
                : (unsigned)type < SampleTypeCount ? (size_t)2                                \
                                                   : (size_t)0))                              \
    ASG()

static struct ImageShape g_shape;
#define CONTRACT_bytes_of_image(REQ, ENS, ASG, FRE)                                           \
    REQ(shape == &g_shape && shape->strides.planes >= 0 &&                                    \
        shape->strides.planes <= ((int64_t)1 << 40))                                          \
    ENS("[C05.image-bytes] bytes_of_image is the plane stride (pixels per frame) times the " \
        "bytes per sample",                                                                   \
        RET == ((unsigned)g_shape.type == SampleType_u8 || (unsigned)g_shape.type == SampleType_i8 \
                  ? (size_t)g_shape.strides.planes                                            \
                : (unsigned)g_shape.type == SampleType_f32 ? (size_t)g_shape.strides.planes * 4 \
                : (unsigned)g_shape.type < SampleTypeCount ? (size_t)g_shape.strides.planes * 2 \
                                                           : (size_t)0))                      \
    ASG()

static struct slice g_rem0;
static size_t g_first_size;
/* The iterator is specified through what its callers can observe - the frame the NEXT call
 * will return - not through the values of its fields (an earlier version demanded
 * remaining.beg == old + size and alarmed on an iterator that clears itself as soon as it is
 * exhausted: a false alarm, corrected here). */
#define IT_NEXT(it)                                                                           \
    (((it)->remaining.beg != 0 && (it)->remaining.beg < (it)->remaining.end) ? (it)->remaining.beg : (uint8_t*)0)
#define CONTRACT_frame_iterator_next(REQ, ENS, ASG, FRE)                                      \
    REQ(it != 0)                                                                              \
    ENS("[C05.iterator-steps-exactly] on a non-empty slice the iterator returns the header " \
        "at its start; the frame it will return next starts exactly bytes_of_frame further "  \
        "(or there is none, when that is the end of the slice), inside the same slice",       \
        IMPL(g_rem0.beg != 0 && g_rem0.beg != g_rem0.end,                                     \
             RET == (struct VideoFrame*)g_rem0.beg &&                                         \
               IT_NEXT(it) == (g_rem0.beg + g_first_size < g_rem0.end ? g_rem0.beg + g_first_size : (uint8_t*)0) && \
               IMPL(IT_NEXT(it) != 0, it->remaining.end == g_rem0.end)))                      \
    ENS("[C05.iterator-ends-cleanly] on an empty or NULL slice it returns NULL and stays "   \
        "finished",                                                                           \
        IMPL(g_rem0.beg == 0 || g_rem0.beg == g_rem0.end, RET == 0 && IT_NEXT(it) == 0))      \
    ASG()

#include "device/props/components.c"
#include "runtime/frame_iterator.c"
#include "runtime/vfslice.c"

void
h_bytes_of_type(void)
{
    enum SampleType type = (enum SampleType)nd_uint();
    size_t ret;
    H_CALL(bytes_of_type, ret = bytes_of_type(type));
    VCOVER(ret == 4, "f32");
    VCOVER(ret == 0, "out of range");
    H_END;
}

void
h_bytes_of_image(void)
{
    g_shape.strides.planes = nd_long();
    g_shape.type = (enum SampleType)nd_uint();
    const struct ImageShape* shape = &g_shape;
    size_t ret;
    H_CALL(bytes_of_image, ret = bytes_of_image(shape));
    VCOVER(ret == ((size_t)1 << 42), "largest f32 image");
    H_END;
}

/* arithmetic lemma used by the producers: rounding up to a multiple of 8 */
void
h_lemma_align8(void)
{
    size_t nbytes = nd_ulong();
    VASSUME(nbytes <= ((size_t)1 << 48));
    size_t a = 8 * ((nbytes + 7) / 8);
    VASSERT(a % 8 == 0 && nbytes <= a && a < nbytes + 8,
            "[C05.rounding-lemma] 8*((n+7)/8) is the least multiple of 8 not below n");
    VASSERT(sizeof(struct VideoFrame) % 8 == 0, "[C05.header-multiple-of-8] the frame header size is a multiple of 8");
    VCOVER(nbytes % 8 == 3, "residue 3");
    H_END;
}

void
h_frame_iterator_next(void)
{
    size_t n = nd_ulong();
    VASSUME(n <= ((size_t)1 << 40));
#ifdef VERIF_NATIVE
    VASSUME(n <= (1UL << 20));
#endif
    uint8_t* buf = malloc(n ? n : 1);
    VASSUME(buf != 0);
    struct slice sl = { buf, buf + n };
    if (nd_bool())
        sl.beg = sl.end = 0;
    g_first_size = 0;
    if (sl.beg && n >= HDR) {
        g_first_size = nd_ulong();
        VASSUME(g_first_size >= HDR && g_first_size <= n);
        ((struct VideoFrame*)buf)->bytes_of_frame = g_first_size;
    } else if (sl.beg) {
        sl.end = sl.beg; /* a non-empty slice always starts with a whole frame (C05) */
    }
    struct frame_iterator iter = frame_iterator_init(&sl);
    struct frame_iterator* it = &iter;
    g_rem0 = iter.remaining;
    struct VideoFrame* ret;
    H_CALL(frame_iterator_next, ret = frame_iterator_next(it));
    VCOVER(ret != 0 && it->remaining.beg == it->remaining.end, "last frame of the packet");
    VCOVER(ret != 0 && it->remaining.beg != it->remaining.end, "more frames follow");
    VCOVER(ret == 0, "empty");
    H_END;
}

/* chain-walking loop of vfslice_split_at_delay_ms: bounded stand-in, K frames */
#define K 2
void
h_vfslice_split(void)
{
    unsigned nframes = nd_uchar();
    VASSUME(nframes <= K);
    size_t sz[K], off[K + 1];
    size_t total = 0;
    for (unsigned i = 0; i < K; ++i) {
        sz[i] = nd_ulong();
        VASSUME(sz[i] >= HDR && sz[i] <= (1u << 12));
        off[i] = total;
        if (i < nframes)
            total += sz[i];
    }
    off[K] = total;
    uint8_t* buf = malloc(total ? total : 1);
    VASSUME(buf != 0);
    for (unsigned i = 0; i < K; ++i)
        if (i < nframes) {
            ((struct VideoFrame*)(buf + off[i]))->bytes_of_frame = sz[i];
            ((struct VideoFrame*)(buf + off[i]))->timestamps.acq_thread = nd_ulong();
        }
    g_now = nd_ulong();
    struct vfslice sl = { (const struct VideoFrame*)buf, (const struct VideoFrame*)(buf + total) };
    float delay_ms = nd_float();
    VASSUME(delay_ms == delay_ms);
    struct vfslice r = vfslice_split_at_delay_ms(&sl, delay_ms);
    size_t cut = (size_t)((const uint8_t*)r.beg - buf);
    VASSERT(r.end == sl.end, "[C05.split-keeps-end] the remainder ends where the slice ends");
    VASSERT(cut == off[0] || cut == off[1] || cut == total,
            "[C05.split-at-frame-boundary,C04.split-at-frame-boundary] the consumed part is a whole number of frames");
    VASSERT(cut <= total, "[C05.split-inside-slice] the cut lies inside the slice");
    /* progress of the delayed writer (safety form): frames that are old enough are released.
     * Without it the sink's inner loop maps the same data again and again and nothing is
     * stored before the final flush. Only the two unambiguous cases are pinned down (no
     * delay; every frame strictly older than the deadline) - how a frame exactly at the
     * deadline is treated is left to the code. */
    VASSERT(!(delay_ms < 1.0e-3f) || cut == total,
            "[C04.no-delay-releases-everything] without a write delay the whole slice is handed to storage");
    {
        int all_old = 1;
        for (unsigned i = 0; i < K; ++i)
            if (i < nframes && !(((const struct VideoFrame*)(buf + off[i]))->timestamps.acq_thread < g_deadline))
                all_old = 0;
        VASSERT(!(delay_ms >= 1.0e-3f && all_old) || cut == total,
                "[C04.old-frames-are-released] when every frame of the slice is older than the write delay the whole slice is handed to storage");
    }
    VCOVER(nframes == K && cut == off[1], "cut after the first frame of a 2-frame packet");
    VCOVER(nframes == 0, "empty slice");
    H_END;
}
