/* C12 (C side only): contracts on the real
 *   /repo/acquire-driver-common/src/basics.driver.c
 *   /repo/acquire-driver-common/src/storage/basic.storage.c
 *   /repo/acquire-core-libs/src/acquire-device-hal/device/hal/loader.c
 * all #included unmodified. The device constructors (simcam_make_camera, raw_init, ...) and
 * the lib_* platform functions are stubs. device.manager.cpp (pattern selection) is C++ and
 * out of reach: nothing here speaks about it. */
#include "verif.h"
#include "device/kit/driver.h"
#include "device/kit/camera.h"
#include "device/kit/storage.h"
#include "device/hal/loader.h"
#include "identifiers.h"
#include "platform.h"

#include <stdlib.h>
#include <string.h>

void
aq_logger(int is_error, const char* file, int line, const char* function, const char* fmt, ...)
{
}
void
logger_set_reporter(void (*reporter)(int, const char*, int, const char*, const char*))
{
}
size_t
device_identifier_as_debug_string(char* buf, size_t nbytes, const struct DeviceIdentifier* identifier)
{
    return 0;
}

static struct bas_ghost
{
    int n_make_camera, n_close_camera, n_make_storage[BasicDeviceKindCount], n_destroy;
    int made_kind;       /* BasicDeviceKind passed to the last constructor               */
    int ctor_fails;
    /* loader */
    int lib_open, lib_closed, n_lib_open, n_lib_close, n_lib_load, n_init, n_inner_shutdown;
    int lib_open_fails, lib_load_fails, init_fails;
    int inner_calls;
} bg;

static struct Camera g_camera_obj;
static struct Storage g_storage_obj;

struct Camera*
simcam_make_camera(enum BasicDeviceKind kind)
{
    bg.n_make_camera++;
    bg.made_kind = kind;
    if (bg.ctor_fails)
        return 0;
    return &g_camera_obj;
}
enum DeviceStatusCode
simcam_close_camera(struct Camera* camera)
{
    VASSERT(camera == &g_camera_obj, "[C12.close-dispatch] the camera closer gets the camera object");
    bg.n_close_camera++;
    return Device_Ok;
}
static void
sto_destroy(struct Storage* s)
{
    VASSERT(s == &g_storage_obj, "[C12.close-dispatch] destroy gets the storage object");
    bg.n_destroy++;
}
static struct Storage*
make_storage(int kind)
{
    bg.n_make_storage[kind]++;
    bg.made_kind = kind;
    if (bg.ctor_fails)
        return 0;
    g_storage_obj.destroy = sto_destroy;
    return &g_storage_obj;
}
struct Storage* raw_init() { return make_storage(BasicDevice_Storage_Raw); }
struct Storage* tiff_init() { return make_storage(BasicDevice_Storage_Tiff); }
struct Storage* trash_init() { return make_storage(BasicDevice_Storage_Trash); }
struct Storage* side_by_side_tiff_init() { return make_storage(BasicDevice_Storage_SideBySideTiffJson); }

/* --- lib_* stubs for the loader */
static struct Driver g_inner;
static struct Driver*
inner_init(void (*reporter)(int, const char*, int, const char*, const char*))
{
    bg.n_init++;
    return bg.init_fails ? 0 : &g_inner;
}
int
lib_open_by_name(struct lib* self, const char* name)
{
    bg.n_lib_open++;
    if (bg.lib_open_fails) {
        self->inner = 0;
        return 0;
    }
    bg.lib_open = 1;
    self->inner = (void*)&bg;
    return 1;
}
void*
lib_load(struct lib* self, const char* name)
{
    bg.n_lib_load++;
    VASSERT(bg.lib_open && !bg.lib_closed, "[C12.loader-cleanup] symbols are looked up in an open library");
    return bg.lib_load_fails ? 0 : (void*)inner_init;
}
void
lib_close(struct lib* self)
{
    if (self && self->inner) {
        VASSERT(bg.lib_open && !bg.lib_closed, "[C12.loader-cleanup] the library is closed at most once");
        bg.lib_closed = 1;
        bg.n_lib_close++;
        self->inner = 0;
    }
}

/* ================================================================== real code */
#include "basics.driver.c"
#undef L
#undef LOG
#undef LOGE
#undef EXPECT
#undef CHECK
#undef containerof
#include "storage/basic.storage.c"
#undef L
#undef LOG
#undef LOGE
#undef EXPECT
#undef CHECK
#undef containerof
#include "device/hal/loader.c"

#define IS_CAM_ID(i) ((i) <= BasicDevice_Camera_Empty)
#define IS_STO_ID(i) ((i) >= BasicDevice_Storage_Raw && (i) < BasicDeviceKindCount)

static struct DeviceIdentifier g_id0;

/* The names a user selects devices by are the documented ones (README, "Acquire Common
 * Driver"), in the order of enum BasicDeviceKind whose values basic_device_open dispatches
 * on. Compared as selection compares them: whole name, case-insensitively. The loop bound
 * is the literal 32 (every documented name is shorter): complete under --unwindset. */
static int
v_name_is(const char* name, const char* lit)
{
    for (int k = 0; k < 32; ++k) {
        char a = name[k], b = lit[k];
        if (a >= 'A' && a <= 'Z')
            a = (char)(a + 32);
        if (b >= 'A' && b <= 'Z')
            b = (char)(b + 32);
        if (a != b)
            return 0;
        if (a == 0)
            return 1;
    }
    return 0;
}
#define DOCUMENTED_NAME(i)                                 \
    ((i) == 0   ? "simulated: uniform random"              \
     : (i) == 1 ? "simulated: radial sin"                  \
     : (i) == 2 ? "simulated: empty"                       \
     : (i) == 3 ? "raw"                                    \
     : (i) == 4 ? "tiff"                                   \
     : (i) == 5 ? "Trash"                                  \
                : "tiff-json")
#define CONTRACT_basic_device_describe(REQ, ENS, ASG, FRE)                                    \
    REQ(identifier != 0)                                                                      \
    ENS("[C12.enumeration-table] ids 0..6 are described: id echoed, cameras 0-2, storage "   \
        "3-6, name non-empty and NUL-terminated within the field",                            \
        IMPL(i < BasicDeviceKindCount,                                                        \
             RET == Device_Ok && identifier->device_id == i &&                                \
               identifier->kind == (IS_CAM_ID(i) ? DeviceKind_Camera : DeviceKind_Storage) && \
               identifier->name[0] != 0 && identifier->name[sizeof(identifier->name) - 1] == 0)) \
    ENS("[C12.enumeration-names] the name described for id i is the documented name of the " \
        "device basic_device_open constructs for id i (whole name, case-insensitive)",        \
        IMPL(i < BasicDeviceKindCount, v_name_is(identifier->name, DOCUMENTED_NAME(i))))      \
    ENS("[C12.out-of-range-is-error] any other index gives Device_Err and leaves the "       \
        "identifier untouched",                                                               \
        IMPL(i >= BasicDeviceKindCount,                                                       \
             RET == Device_Err && identifier->device_id == g_id0.device_id &&                 \
               identifier->kind == g_id0.kind && identifier->name[0] == g_id0.name[0]))       \
    ASG()

static struct Device* g_out0;
#define CONTRACT_basic_device_open(REQ, ENS, ASG, FRE)                                        \
    ENS("[C12.open-yields-described-kind] ids described as cameras construct that simulated "\
        "camera, ids described as storage construct that storage device, exactly once",       \
        IMPL(out != 0 && device_id < BasicDeviceKindCount &&                                  \
               !(RET == Device_Err && bg.made_kind == -1) /* table allocation failed */,      \
             bg.made_kind == (int)device_id &&                                                \
               (IS_CAM_ID(device_id) ? bg.n_make_camera == 1                                  \
                                     : bg.n_make_storage[device_id % BasicDeviceKindCount] == 1) && \
               IFF(RET == Device_Ok, !bg.ctor_fails) &&                                       \
               IMPL(RET == Device_Ok, *out == (IS_CAM_ID(device_id) ? &g_camera_obj.device    \
                                                                    : &g_storage_obj.device)))) \
    ENS("[C12.out-of-range-is-error] any other id, or a NULL out pointer, gives Device_Err "\
        "without constructing anything",                                                      \
        IMPL(out == 0 || device_id >= BasicDeviceKindCount,                                   \
             RET == Device_Err && bg.n_make_camera == 0 && bg.made_kind == -1 &&              \
               (out == 0 || *out == g_out0)))                                                 \
    ASG()

#define CONTRACT_basic_device_close(REQ, ENS, ASG, FRE)                                       \
    REQ(in == 0 || in == &g_camera_obj.device || in == &g_storage_obj.device)                 \
    /* the identifier stored in a device is the one its driver described (hal.driver_open_device) */ \
    REQ(in == 0 || (in == &g_camera_obj.device ? !IS_STO_ID(in->identifier.device_id)         \
                                               : !IS_CAM_ID(in->identifier.device_id)))        \
    ENS("[C12.close-dispatch] a camera id closes the camera, a storage id destroys the "     \
        "storage device, anything else is an error with no call",                             \
        in == 0 ? (RET == Device_Err && bg.n_close_camera + bg.n_destroy == 0)                \
        : (in == &g_camera_obj.device && IS_CAM_ID(in->identifier.device_id))                 \
          ? (bg.n_close_camera == 1 && bg.n_destroy == 0)                                     \
        : (in == &g_storage_obj.device && IS_STO_ID(in->identifier.device_id))                \
          ? (bg.n_destroy == 1 && bg.n_close_camera == 0 && RET == Device_Ok)                 \
          : 1)                                                                                \
    ASG()

#define CONTRACT_driver_load(REQ, ENS, ASG, FRE)                                              \
    REQ(relative_path != 0)                                                                   \
    ENS("[C12.absent-library-is-error,C12.loader-cleanup] an absent library, a missing "     \
        "entry point or a failing init give NULL; an opened library is closed exactly once",  \
        IMPL(bg.lib_open_fails || bg.lib_load_fails || bg.init_fails,                         \
             RET == 0 && bg.n_lib_close == ((bg.lib_open_fails || bg.n_lib_open == 0) ? 0 : 1))) \
    ENS("[C12.loader-success] otherwise a driver whose five entry points are set",           \
        IMPL(!(bg.lib_open_fails || bg.lib_load_fails || bg.init_fails) && RET != 0,          \
             RET->device_count != 0 && RET->describe != 0 && RET->open != 0 &&                \
               RET->close != 0 && RET->shutdown != 0 && bg.n_lib_close == 0 && bg.n_init == 1)) \
    ASG()

void
h_basic_device_describe(void)
{
    memset(&bg, 0, sizeof(bg));
    struct DeviceIdentifier idv;
    idv.device_id = nd_uchar();
    idv.kind = (enum DeviceKind)nd_uchar();
    idv.name[0] = (char)(nd_uchar() & 0x7f);
    g_id0 = idv;
    struct DeviceIdentifier* identifier = &idv;
    const struct Driver* driver = 0;
    uint64_t i = nd_ulong();
    enum DeviceStatusCode ret;
    H_CALL(basic_device_describe, ret = basic_device_describe(driver, identifier, i));
    VCOVER(ret == Device_Ok && i == 6, "last device");
    VCOVER(ret == Device_Err, "out of range");
    H_END;
}

void
h_basic_device_open(void)
{
    memset(&bg, 0, sizeof(bg));
    bg.made_kind = -1;
    bg.ctor_fails = nd_bool();
    struct Driver* driver = 0;
    uint64_t device_id = nd_ulong();
    struct Device* o = (struct Device*)0x10;
    g_out0 = o;
    struct Device** out = nd_bool() ? &o : 0;
    enum DeviceStatusCode ret;
    H_CALL(basic_device_open, ret = basic_device_open(driver, device_id, out));
    VCOVER(ret == Device_Ok && device_id == 2, "a camera");
    VCOVER(ret == Device_Ok && device_id == 6, "tiff-json");
    VCOVER(ret == Device_Err && device_id == 3 && out, "constructor fails");
    VCOVER(ret == Device_Err && device_id > 6, "unknown id");
    /* the constructor table lives in a lazily allocated global: release it */
    basics_storage_shutdown(0);
    H_END;
}

void
h_basic_device_close(void)
{
    memset(&bg, 0, sizeof(bg));
    struct Driver* driver = 0;
    g_storage_obj.destroy = sto_destroy;
    unsigned sel = nd_uchar() % 3;
    struct Device* in = sel == 0 ? 0 : sel == 1 ? &g_camera_obj.device : &g_storage_obj.device;
    if (in)
        in->identifier.device_id = nd_uchar();
    enum DeviceStatusCode ret;
    H_CALL(basic_device_close, ret = basic_device_close(driver, in));
    VCOVER(bg.n_destroy == 1, "storage destroyed");
    VCOVER(bg.n_close_camera == 1, "camera closed");
    H_END;
}

void
h_driver_load(void)
{
    memset(&bg, 0, sizeof(bg));
    bg.lib_open_fails = nd_bool();
    bg.lib_load_fails = nd_bool();
    bg.init_fails = nd_bool();
    const char* relative_path = "x";
    void (*reporter)(int, const char*, int, const char*, const char*) = 0;
    struct Driver* ret;
    H_CALL(driver_load, ret = driver_load(relative_path, reporter));
    if (ret) {
        /* forwarders and shutdown of a loaded driver */
        g_inner.shutdown = 0;
        struct Loader* l = containerof(ret, struct Loader, driver);
        l->inner = 0; /* an inner driver that went away */
        VASSERT(ret->device_count(ret) == 0, "[C12.loader-forwarders] no inner driver: zero devices");
        struct DeviceIdentifier id;
        VASSERT(ret->describe(ret, &id, 0) == Device_Err, "[C12.loader-forwarders] no inner driver: describe is an error, no call");
        struct Device* d = 0;
        VASSERT(ret->open(ret, 0, &d) == Device_Err && d == 0, "[C12.loader-forwarders] no inner driver: open is an error, no call");
        ret->shutdown(ret);
        VASSERT(bg.n_lib_close == 1, "[C12.loader-cleanup] shutdown closes the library exactly once");
    }
    VCOVER(ret != 0, "loaded");
    VCOVER(ret == 0 && bg.n_lib_close == 1, "failed after the library was opened");
    VCOVER(ret == 0 && bg.n_lib_close == 0, "library absent");
    H_END;
}

/* Life cycle of the lazily built constructor table of basic.storage.c: any interleaving of
 * "open a storage device" and "driver shutdown" keeps working - a second driver instance
 * (or a re-initialised one in a process that kept the library loaded) must find either no
 * table or a valid one, never a dangling pointer. Loop-free history: the table state before
 * the first step is arbitrary-but-reachable (absent, or built by an earlier open). */
void
h_storage_table_lifecycle(void)
{
    memset(&bg, 0, sizeof(bg));
    bg.made_kind = -1;
    if (nd_bool()) {
        struct Storage* s0 = basics_make_storage(BasicDevice_Storage_Trash); /* table built earlier */
        (void)s0;
    }
    basics_storage_shutdown(0); /* one driver instance goes away */
    memset(&bg, 0, sizeof(bg));
    bg.made_kind = -1;
    enum BasicDeviceKind kind = (enum BasicDeviceKind)(nd_uchar() % BasicDeviceKindCount);
    struct Storage* st = basics_make_storage(kind); /* another instance opens a storage device */
    VASSERT(st == 0 || (IS_STO_ID(kind) && bg.made_kind == (int)kind && bg.n_make_storage[kind] == 1),
            "[C12.open-yields-described-kind] after a driver shutdown a storage id still constructs exactly that storage device");
    VASSERT(st != 0 || !IS_STO_ID(kind) || bg.made_kind == -1 || bg.ctor_fails,
            "[C12.bad-input-is-error] a failed open after a shutdown is an allocation failure or a non-storage id");
    basics_storage_shutdown(0);
    basics_storage_shutdown(0); /* idempotent: 'may be called multiple times' */
    VCOVER(st != 0 && kind == BasicDevice_Storage_Raw, "raw opened after a shutdown");
    VCOVER(st == 0 && !IS_STO_ID(kind), "camera id is not a storage device");
    H_END;
}

/* The driver object handed to the device manager: enumeration and opening go through ITS
 * function pointers, so the entry points must be the functions the contracts above are
 * enforced on, and device_count must be exactly the number of ids describe accepts. */
void
h_basics_driver_init(void)
{
    struct Driver* d = acquire_driver_init_v0(0);
    if (d) {
        VASSERT(d->device_count == basic_device_count && d->describe == basic_device_describe &&
                  d->open == basic_device_open && d->close == basic_device_close &&
                  d->shutdown == basic_device_shutdown_driver,
                "[C12.driver-wiring] the driver object exposes exactly the contracted entry points");
        VASSERT(basic_device_count(d) == BasicDeviceKindCount,
                "[C12.enumeration-table] device_count is the number of ids describe accepts: every documented device is enumerated, no undescribable id is");
        /* shutdown releases the driver and the lazily built constructor table (whether or
         * not an open built it): nothing is left allocated (--memory-leak-check) */
        memset(&bg, 0, sizeof(bg));
        bg.made_kind = -1;
        int built = nd_bool();
        if (built)
            (void)basics_make_storage(BasicDevice_Storage_Trash);
        VASSERT(basic_device_shutdown_driver(d) == Device_Ok,
                "[C12.driver-wiring] shutdown releases the driver object and the constructor table and reports Ok");
        VCOVER(built, "shutdown with a constructor table built");
    }
    VASSERT(basic_device_shutdown_driver(0) == Device_Ok,
            "[C12.bad-input-is-error] shutdown of a NULL driver touches nothing");
    VCOVER(d != 0, "driver created");
    H_END;
}
