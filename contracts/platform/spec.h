/* predicates for the loop contract of file_write (expanded into the loop JSON) */
#ifndef PLATFORM_SPEC_H
#define PLATFORM_SPEC_H
#endif
