#ifndef FILTER_SPEC_H
#define FILTER_SPEC_H
#define PIX_INV(i, x)                                                          \
    (i <= npx && npx == g_npx && x == (float*)acc->data &&                     \
     (g_k < i ? x[g_k] == g_x0 + g_add : x[g_k] == g_x0))
#define IFF(a, b) ((!!(a)) == (!!(b)))
#define IMPL(a, b) (!(a) || (b))
#define PD_LINK(accp, cnt)                                                                    \
    (IFF(*(accp) != (struct VideoFrame*)0, fg.pending) &&                                     \
     IMPL(fg.pending, (unsigned char*)*(accp) == g_accbuf && *(cnt) == fg.window &&           \
                        fg.window >= 1 && fg.window < g_flt.filter_window_frames) &&          \
     IMPL(!fg.pending, *(cnt) == 0))
#endif
