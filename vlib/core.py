"""Pipeline: real /repo sources + contracts -> goto-cc -> goto-instrument --dfcc -> cbmc
--json-ui -> tagged obligations -> evidence / VIOLATION lines / native replay.

Exit-code discipline (DESIGN 6.1):
  0  every obligation of every unit of the property discharged, guards held
  1  a tagged obligation FAILED (and is not a listed known finding)
  2  tooling: timeout, memory, compile/instrument error, locator failure, vacuity
"""
import concurrent.futures
import hashlib
import json
import os
import re
import resource
import shutil
import subprocess
import sys
import tempfile
import time

VERIF = os.path.dirname(os.path.dirname(os.path.abspath(__file__)))
REPO = os.environ.get("VERIF_REPO", "/repo")
CONTRACTS = os.path.join(VERIF, "contracts")
CACHE = os.path.join(VERIF, ".cache")
EVID = os.path.join(VERIF, "evidence")

INCLUDE_DIRS = [
    "acquire-core-libs/src/acquire-core-logger",
    "acquire-core-libs/src/acquire-core-platform/linux",
    "acquire-core-libs/src/acquire-device-properties",
    "acquire-core-libs/src/acquire-device-kit",
    "acquire-core-libs/src/acquire-device-hal",
    "acquire-video-runtime/src",
    "acquire-video-runtime/src/runtime",
    "acquire-driver-common/src",
    "acquire-driver-common/src/simcams",
    "acquire-driver-common/src/storage",
    "acquire-driver-common/src/simcams/3rdParty/pcg-c-basic-0.9",
]

COMPONENTS = [
    "hal", "channel", "props", "platform", "raw", "filter", "source", "sink",
    "acquire", "simcam", "basics", "runtime_misc",
]

ND_FUNCS = {"nd_int", "nd_uint", "nd_uchar", "nd_ulong", "nd_long", "nd_bool", "nd_float"}

# --pointer-overflow-check is opt-in per unit ("flags"): it treats NULL + 0 as a fatal
# failure, which the code does on every empty slice (excluded class, DESIGN sec. 9 item 6).
# --conversion-check is not used: it flags implicit signed->unsigned conversions, which are
# defined behaviour in C (e.g. the `index < size` test of set_dimension with a negative index).
DEFAULT_CBMC_FLAGS = [
    "--bounds-check", "--pointer-check", "--div-by-zero-check",
]


# Obligation classes that are not part of any property (DESIGN sec. 9 item 6): relational
# comparison of two NULL pointers, which the code performs on empty slices ({0,0}) and which
# is benign on the target.  They are dropped before counting and listed in the evidence.
EXCLUDED_CLASSES = [r"^pointer relation: pointer NULL in "]


class Tooling(Exception):
    pass


def inc_flags():
    fl = ["-I" + os.path.join(CONTRACTS, "common")]
    for d in INCLUDE_DIRS:
        fl.append("-I" + os.path.join(REPO, d))
    return fl


def tool_versions():
    out = {}
    for t in ("cbmc", "goto-cc", "goto-instrument"):
        try:
            out[t] = subprocess.run([t, "--version"], capture_output=True, text=True).stdout.strip()
        except Exception:
            out[t] = "?"
    return out


_TV = None


def tv():
    global _TV
    if _TV is None:
        _TV = tool_versions()
    return _TV


def load_units():
    units = {}
    for comp in COMPONENTS:
        p = os.path.join(CONTRACTS, comp, "units.json")
        if not os.path.exists(p):
            continue
        spec = json.load(open(p))
        defaults = spec.get("defaults", {})
        for u in spec["units"]:
            v = dict(defaults)
            v.update(u)
            v["component"] = comp
            v.setdefault("harness", "harness.c")
            v.setdefault("replace", [])
            v.setdefault("preunwind", [])
            v.setdefault("unwind", 3)
            v.setdefault("unwindset", [])
            v.setdefault("flags", [])
            v.setdefault("defines", [])
            v.setdefault("timeout", 600)
            v.setdefault("tier", "quick")
            v.setdefault("mem_gb", 12)
            v.setdefault("functions", [])
            v.setdefault("bounded", None)
            v.setdefault("assumes", [])
            v.setdefault("props", [])
            v.setdefault("object_bits", None)
            v.setdefault("loops", None)
            v.setdefault("no_default_flags", False)
            v.setdefault("solver", None)
            v.setdefault("entry", None)
            if v["name"] in units:
                raise Tooling("duplicate unit " + v["name"])
            units[v["name"]] = v
    return units


def _limit(mem_gb):
    def f():
        b = int(mem_gb * (1 << 30))
        resource.setrlimit(resource.RLIMIT_AS, (b, b))
        os.setsid()
    return f


def run(cmd, timeout, mem_gb=12, stdout_path=None, cwd=None):
    t0 = time.time()
    so = open(stdout_path, "wb") if stdout_path else subprocess.PIPE
    try:
        p = subprocess.Popen(cmd, stdout=so, stderr=subprocess.PIPE, cwd=cwd,
                             preexec_fn=_limit(mem_gb))
        try:
            out, err = p.communicate(timeout=timeout)
        except subprocess.TimeoutExpired:
            try:
                os.killpg(p.pid, 9)
            except Exception:
                p.kill()
            p.communicate()
            return {"rc": None, "timeout": True, "out": "", "err": "timeout after %ss" % timeout,
                    "wall": time.time() - t0}
    finally:
        if stdout_path:
            so.close()
    return {"rc": p.returncode, "timeout": False,
            "out": (out or b"").decode("utf8", "replace") if not stdout_path else "",
            "err": (err or b"").decode("utf8", "replace"), "wall": time.time() - t0}


# ----------------------------------------------------------------------------- tags
TAG_RE = re.compile(r"^\[((?:C\d\d\.[\w-]+|COVER|CANARY)(?:,(?:C\d\d\.[\w-]+))*)\]")


def contract_tags(unit, workdir):
    """Ordered ENS tag lists per contract function, obtained from the preprocessor so
    nested helper macros are expanded exactly as the compiler sees them."""
    src = os.path.join(CONTRACTS, unit["component"], unit["harness"])
    cmd = ["gcc", "-E", "-P", "-DVERIF_TAGDUMP", "-DVERIF_CBMC", "-DNO_UNIT_TESTS"] + \
        ["-D" + d for d in unit["defines"]] + inc_flags() + [src]
    r = subprocess.run(cmd, capture_output=True, text=True)
    if r.returncode != 0:
        raise Tooling("tag dump failed: " + r.stderr[-2000:])
    tags = {}
    for m in re.finditer(r"@@BEGIN\s+(\w+)(.*?)@@END", r.stdout, re.S):
        fn = m.group(1)
        lst = []
        for e in re.finditer(r'@@ENS\s+"((?:[^"\\]|\\.)*)"', m.group(2)):
            lst.append(e.group(1))
        tags[fn] = lst
    return tags


def tags_of(desc):
    m = TAG_RE.match(desc or "")
    if not m:
        return []
    return m.group(1).split(",")


# ----------------------------------------------------------------------------- loops
def locate_loops(unit, gb, workdir):
    """Resolve loop-contract templates (function + source anchor + base symbol names)
    to CBMC loop ordinals and scoped symbols on the *current* binary."""
    tmpl_path = os.path.join(CONTRACTS, unit["component"], unit["loops"])
    tmpl = json.load(open(tmpl_path))
    r = run(["goto-instrument", "--show-loops", "--json-ui", gb], 120)
    if r["rc"] != 0:
        raise Tooling("show-loops failed: " + r["err"][-1000:])
    loops = []
    for item in json.loads(r["out"]):
        if isinstance(item, dict) and "loops" in item:
            loops = item["loops"]
    r = run(["goto-instrument", "--show-symbol-table", "--json-ui", gb], 120)
    if r["rc"] != 0:
        raise Tooling("show-symbol-table failed: " + r["err"][-1000:])
    symtab = {}
    for item in json.loads(r["out"]):
        if isinstance(item, dict) and "symbolTable" in item:
            symtab = item["symbolTable"]
    # expand macros in invariants with the preprocessor (same predicate macros as the contracts)
    out = {"functions": []}
    per_fn = {}
    for ent in tmpl["loops"]:
        fn = ent["function"]
        anchor = ent["anchor"]
        cands = []
        for lp in loops:
            sl = lp.get("sourceLocation", {})
            if sl.get("function") != fn:
                continue
            f = sl.get("file")
            ln = int(sl.get("line", "0"))
            try:
                text = open(f).read().split("\n")[ln - 1]
            except Exception:
                text = ""
            if anchor in text:
                cands.append((lp, ln))
        cands.sort(key=lambda c: c[1])
        if not cands and "fallback_ordinal" in ent:
            # The anchor text is gone (the loop header was rewritten). If the function still has
            # as many loops as when the contract was written, bind the contract to the loop at
            # the same position; verify_unit then counts only tagged obligations of this unit
            # as violations - a failing invariant of a rewritten loop is "undecided" (exit 2).
            fl = sorted(((lp, int(lp.get("sourceLocation", {}).get("line", "0"))) for lp in loops
                         if lp.get("sourceLocation", {}).get("function") == fn), key=lambda c: c[1])
            if len(fl) == ent.get("function_loops") and ent["fallback_ordinal"] < len(fl):
                cands = [fl[ent["fallback_ordinal"]]]
                out.setdefault("fallback_bound", []).append(fn)
        if "anchor_index" in ent:
            want = ent.get("anchor_count")
            if ent["anchor_index"] >= len(cands) or (want is not None and want != len(cands)):
                raise Tooling("loop anchor %r in %s: index %d of %d loops" % (anchor, fn, ent["anchor_index"], len(cands)))
            lp, ln = cands[ent["anchor_index"]]
        else:
            if len(cands) != 1:
                raise Tooling("loop anchor %r in %s resolves to %d loops" % (anchor, fn, len(cands)))
            lp, ln = cands[0]
        ordinal = lp["name"].rsplit(".", 1)[1]
        smap = []
        for base in ent.get("symbols", []):
            if base in ent.get("params", []):
                smap.append("%s,%s::%s" % (base, fn, base))
                continue
            pick = None
            if "#" in base:  # "y#2": the third same-named local in scope order
                base, pick = base.split("#")
                pick = int(pick)
            names = sorted(k for k in symtab if re.fullmatch(re.escape(fn) + r"::(\d+::)*" + re.escape(base), k))
            if pick is not None:
                if pick >= len(names):
                    raise Tooling("loop symbol %r#%d in %s: only %r" % (base, pick, fn, names))
                names = [names[pick]]
            if len(names) != 1:
                raise Tooling("loop symbol %r in %s resolves to %r" % (base, fn, names))
            smap.append("%s,%s" % (base, names[0]))
        inv = expand_pred(unit, ent["invariant"], workdir)
        d = {"invariants": inv, "symbol_map": ";".join(smap)}
        if "assigns" in ent:
            d["assigns"] = expand_pred(unit, ent["assigns"], workdir)
        if "decreases" in ent:
            d["decreases"] = expand_pred(unit, ent["decreases"], workdir)
        per_fn.setdefault(fn, {})[ordinal] = d
    for fn, d in per_fn.items():
        out["functions"].append({fn: [{"loop_id": k, **v} for k, v in d.items()]})
    # CBMC's format: {"functions":[{"fn":[{"loop_id":"0","invariants":"..","symbol_map":".."}]}]}
    p = os.path.join(workdir, "loops.json")
    fb = out.pop("fallback_bound", None)
    json.dump(out, open(p, "w"), indent=1)
    if fb:
        out = dict(out, fallback_bound=fb)
    return p, out


def expand_pred(unit, text, workdir):
    """Macro-expand a predicate with gcc -E using the component's spec.h."""
    spec = os.path.join(CONTRACTS, unit["component"], "spec.h")
    if not os.path.exists(spec):
        return text
    src = '#include "%s"\n@@PRED %s\n' % (spec, text)
    r = subprocess.run(["gcc", "-E", "-P", "-DVERIF_CBMC", "-DVERIF_LOOPJSON"] + ["-D" + d for d in unit["defines"]] +
                       ["-x", "c", "-"] + inc_flags(),
                       input=src, capture_output=True, text=True)
    if r.returncode != 0:
        raise Tooling("predicate expansion failed: " + r.stderr[-1000:])
    m = re.search(r"@@PRED\s+(.*)", r.stdout, re.S)
    return " ".join(m.group(1).split())


# ----------------------------------------------------------------------------- unit
def unit_key(unit, gb, extra_files):
    h = hashlib.sha256()
    h.update(open(gb, "rb").read())
    for f in extra_files:
        h.update(open(f, "rb").read())
    h.update(json.dumps({k: unit[k] for k in sorted(unit) if k not in ("props", "tier", "doc")},
                        sort_keys=True).encode())
    h.update(json.dumps(tv(), sort_keys=True).encode())
    h.update(json.dumps(DEFAULT_CBMC_FLAGS).encode())
    h.update(open(os.path.abspath(__file__), "rb").read())  # classification rules are part of the key
    kf = os.path.join(VERIF, "known_findings.json")
    if os.path.exists(kf):
        h.update(open(kf, "rb").read())  # listed findings get no counterexample run (see verify_unit)
    return h.hexdigest()


def build_unit(unit, workdir, want_trace_for=None):
    """compile + instrument; returns path of the final goto binary and bookkeeping."""
    info = {"steps": []}
    src = os.path.join(CONTRACTS, unit["component"], unit["harness"])
    a = os.path.join(workdir, "a.gb")
    cmd = ["goto-cc", "-DVERIF_CBMC", "-DNO_UNIT_TESTS"] + ["-D" + d for d in unit["defines"]] + \
        inc_flags() + ["--function", unit["entry"], src, "-o", a]
    r = run(cmd, 300)
    info["steps"].append(" ".join(cmd))
    if r["rc"] != 0:
        raise Tooling("goto-cc failed for %s:\n%s" % (unit["name"], r["err"][-3000:]))
    cur = a
    if unit.get("replace_calls"):
        # calls to a function of the real file are redirected to a stub contract written in
        # the harness (C body: assert requires, havoc assigns, assume/establish ensures)
        b = os.path.join(workdir, "rc.gb")
        cmd = ["goto-instrument"]
        for rc in unit["replace_calls"]:
            cmd += ["--replace-calls", rc]
        cmd += [cur, b]
        r = run(cmd, 300)
        info["steps"].append(" ".join(cmd))
        if r["rc"] != 0:
            raise Tooling("replace-calls failed: " + (r["out"] + r["err"])[-2000:])
        cur = b
    before_pre = cur
    if unit["preunwind"]:
        b = os.path.join(workdir, "pre.gb")
        cmd = ["goto-instrument", "--unwindset", ",".join(unit["preunwind"]), "--unwinding-assertions", cur, b]
        r = run(cmd, 300)
        info["steps"].append(" ".join(cmd))
        if r["rc"] != 0:
            raise Tooling("pre-unwind failed: " + r["err"][-2000:])
        cur = b
    extra = []
    loopfile = None
    if unit["loops"]:
        try:
            loopfile, loopjson = locate_loops(unit, cur, workdir)
            info["loop_contracts"] = loopjson
            extra.append(loopfile)
        except Tooling as e:
            if not str(e).startswith(("loop anchor", "loop symbol")):
                raise
            # The loop structure of the function has changed (a loop was removed, added or
            # its locals renamed): the loop contracts cannot be attached. Fall back to a
            # BOUNDED run of the same harness without loop contracts; it can only report
            # failures of tagged obligations found within the bound (real failures of the
            # code under the stub contracts), never a pass - see verify_unit.
            info["bounded_fallback"] = str(e)
            loopfile = None
            cur = before_pre  # the pre-unwinding named loops by ordinal: stale after the change
    if unit.get("enforce") or unit["replace"] or loopfile:
        b = os.path.join(workdir, "dfcc.gb")
        cmd = ["goto-instrument", "--dfcc", unit["entry"]]
        if unit.get("enforce"):
            cmd += ["--enforce-contract", unit["enforce"]]
        for g in unit["replace"]:
            cmd += ["--replace-call-with-contract", g]
        if loopfile:
            cmd += ["--loop-contracts-file", loopfile, "--apply-loop-contracts"]
        cmd += [cur, b]
        r = run(cmd, 600)
        info["steps"].append(" ".join(cmd))
        if r["rc"] != 0 and loopfile and "loop without contract" in (r["out"] + r["err"]):
            # a loop was added inside or around a loop under contract: same bounded fall-back
            info["bounded_fallback"] = "a loop without contract appeared in %s" % unit["name"]
            info.pop("loop_contracts", None)
            cmd = ["goto-instrument", "--dfcc", unit["entry"]]
            if unit.get("enforce"):
                cmd += ["--enforce-contract", unit["enforce"]]
            for g in unit["replace"]:
                cmd += ["--replace-call-with-contract", g]
            cmd += [before_pre, b]
            r = run(cmd, 600)
            info["steps"].append(" ".join(cmd))
        if r["rc"] != 0:
            raise Tooling("goto-instrument --dfcc failed for %s:\n%s" % (unit["name"], (r["out"] + r["err"])[-3000:]))
        cur = b
    info["key"] = unit_key(unit, a, extra)
    return cur, info


def cbmc_cmd(unit, gb, trace=False, props=None):
    # Status run: plain text UI.  --json-ui always embeds a trace for every failed property
    # (the must-fail covers included) and was observed to take >15 min where the text UI
    # takes 3 s (symbolic-size arrays are printed element-wise).  JSON is used only for the
    # trace of genuinely failed obligations, restricted with --property.
    cmd = ["cbmc", gb] + (["--json-ui"] if trace else [])
    if not unit["no_default_flags"]:
        cmd += [f for f in DEFAULT_CBMC_FLAGS if not (unit.get("no_pointer_check") and f == "--pointer-check")]
    if unit.get("no_pointer_check"):
        cmd += ["--no-pointer-check"]
    cmd += ["--unwind", str(unit["unwind"]), "--unwinding-assertions"]
    us = list(unit["unwindset"])
    if unit["loops"] and not any("write_set_check_assigns_clause_inclusion" in x for x in us):
        # loops of the contracts library itself (bounded by the size of the assigns clauses)
        us.append("__CPROVER_contracts_write_set_check_assigns_clause_inclusion.0:20")
    if us:
        cmd += ["--unwindset", ",".join(us)]
    if unit["object_bits"]:
        cmd += ["--object-bits", str(unit["object_bits"])]
    if unit["solver"]:
        cmd += unit["solver"].split()
    cmd += unit["flags"]
    if trace:
        cmd += ["--trace"]
    for p in props or []:
        cmd += ["--property", p]
    return cmd


TEXT_RES = re.compile(r"^\[(\S+)\] (?:file (\S+) )?line (\d+) (.*): (SUCCESS|FAILURE|UNKNOWN|ERROR)$")
TEXT_RES_NOLINE = re.compile(r"^\[(\S+)\] (.*): (SUCCESS|FAILURE|UNKNOWN|ERROR)$")
TEXT_HDR = re.compile(r"^(\S.*) function (\S+)$")


def parse_cbmc_text(path):
    results = []
    fn = fl = None
    seen_results = False
    tail = []
    for ln in open(path, errors="replace"):
        ln = ln.rstrip("\n")
        tail.append(ln)
        if len(tail) > 40:
            tail.pop(0)
        if ln.startswith("** Results:"):
            seen_results = True
            continue
        if not seen_results:
            continue
        m = TEXT_RES.match(ln)
        if m:
            results.append({"property": m.group(1), "description": m.group(4), "status": m.group(5),
                            "sourceLocation": {"line": m.group(3), "file": m.group(2) or fl, "function": fn}})
            continue
        m = TEXT_RES_NOLINE.match(ln)
        if m:
            results.append({"property": m.group(1), "description": m.group(2), "status": m.group(3),
                            "sourceLocation": {"line": None, "file": fl, "function": fn}})
            continue
        if ln.startswith("["):
            raise Tooling("unparsed cbmc result line: " + ln[:200])
        h = TEXT_HDR.match(ln)
        if h:
            fl, fn = h.group(1), h.group(2)
    done = any(t.startswith("VERIFICATION ") for t in tail)
    if not seen_results or not done:
        return None, "\n".join(tail)
    return results, "\n".join(tail)


def parse_cbmc(path):
    try:
        d = json.load(open(path))
    except Exception as e:
        return None, "unparsable cbmc output: %s" % e
    results = None
    msgs = []
    for item in d:
        if isinstance(item, dict):
            if "result" in item:
                results = item["result"]
            if item.get("messageType") in ("ERROR", "WARNING"):
                msgs.append(item.get("messageText", ""))
    return results, "\n".join(msgs)


def classify(unit, results, ctags):
    """Attach tags to every obligation."""
    obs = []
    for r in results:
        desc = r.get("description", "")
        pid = r.get("property", "")
        fn_ = r.get("sourceLocation", {}).get("function", "") or ""
        if fn_.startswith("h_") and fn_ != unit["entry"]:
            continue  # body of another harness entry that is not part of this unit
        tags = tags_of(desc)
        m = re.match(r"(\w+)\.postcondition\.(\d+)$", pid)
        text = desc
        if m and m.group(1) in ctags:
            k = int(m.group(2)) - 1
            lst = ctags[m.group(1)]
            if k < len(lst):
                text = lst[k]
                tags = tags_of(text)
            else:
                tags = ["UNMAPPED"]
        kind = "tagged" if tags else "safety"
        if tags and tags[0] == "COVER":
            kind = "cover"
        if kind == "safety" and any(re.search(x, desc) for x in EXCLUDED_CLASSES):
            kind = "excluded"
        if kind == "safety" and unit.get("safety_tags"):
            # how this unit's memory-safety / frame obligations bear on the properties
            tags = list(unit["safety_tags"])
        obs.append({"id": pid, "status": r.get("status"), "desc": text, "tags": tags, "kind": kind,
                    "line": r.get("sourceLocation", {}).get("line"),
                    "file": r.get("sourceLocation", {}).get("file"),
                    "function": r.get("sourceLocation", {}).get("function")})
    return obs


def nd_script(trace):
    vals = []
    for st in trace or []:
        if st.get("stepType") != "assignment" or st.get("hidden"):
            continue
        fn = st.get("sourceLocation", {}).get("function", "")
        if fn in ND_FUNCS and st.get("lhs") == "v":
            b = st.get("value", {}).get("binary")
            if b is None:
                continue
            vals.append({"kind": fn[3:], "value": int(b, 2)})
    return vals


def verify_unit_native(unit):
    """A lemma decided by exhaustive native enumeration on the compiled repo code (labelled as
    such, never counted as a CBMC proof). The program prints `LEMMA cases=N failures=M`."""
    t0 = time.time()
    res = {"unit": unit["name"], "status": "tooling", "obligations": [], "reason": "", "cached": False, "solver_s": 0.0}
    wd = tempfile.mkdtemp(prefix="vn_", dir=os.environ.get("VERIF_SCRATCH", "/var/tmp"))
    try:
        src = os.path.join(CONTRACTS, unit["component"], unit["native"])
        exe = os.path.join(wd, "lemma")
        cmd = ["gcc", "-O2", "-w", "-DNO_UNIT_TESTS"] + inc_flags() + [src, "-o", exe, "-lm", "-lpthread"]
        r = run(cmd, 300, mem_gb=32)
        res["pipeline"] = [" ".join(cmd), exe]
        if r["rc"] != 0:
            raise Tooling("native lemma does not compile: " + r["err"][-2000:])
        r = run([exe], unit["timeout"], mem_gb=32)
        res["solver_s"] = round(r["wall"], 2)
        if r["timeout"]:
            raise Tooling("native lemma timed out")
        m = re.search(r"LEMMA cases=(\d+) failures=(\d+)", r["out"])
        if not m:
            raise Tooling("native lemma printed no verdict: " + (r["out"] + r["err"])[-500:])
        cases, fails = int(m.group(1)), int(m.group(2))
        if cases == 0:
            raise Tooling("native lemma enumerated nothing")
        desc = unit["lemma"] + " (exhaustive native enumeration of %d cases)" % cases
        fail_lines = [l for l in r["out"].split("\n") if l.startswith("LEMMA-FAILS")]
        res["obligations"] = [
            {"id": unit["name"] + ".lemma", "status": "SUCCESS" if fails == 0 else "FAILURE", "desc": desc,
             "tags": tags_of(unit["lemma"]), "kind": "tagged", "line": None, "file": src, "function": "main",
             "nd_script": None, "trace_tail": [{"lemma_failures": fail_lines[:5]}]},
            {"id": unit["name"] + ".enumerated", "status": "FAILURE", "desc": "[COVER] the domain is not empty",
             "tags": ["COVER"], "kind": "cover", "line": None, "file": src, "function": "main"}]
        res["cases"] = cases
        res["status"] = "ok" if fails == 0 else "failed"
    except Tooling as e:
        res["reason"] = str(e)
    finally:
        shutil.rmtree(wd, ignore_errors=True)
    res["wall"] = round(time.time() - t0, 2)
    return res


def listed_finding(unit, ob):
    """True if a failed obligation is one of the recorded findings (any property): the check
    prints KNOWN-FINDING for it and needs no counterexample, so the expensive trace run
    (a second cbmc run with --json-ui --trace) is skipped for it."""
    kf = os.path.join(VERIF, "known_findings.json")
    if not os.path.exists(kf):
        return False
    for k in json.load(open(kf)).get("findings", []):
        if k.get("unit") and k["unit"] != unit["name"]:
            continue
        if k.get("tag") and k["tag"] not in ob["tags"]:
            continue
        if k.get("obligation") and k["obligation"] != ob["id"]:
            continue
        if k.get("desc_contains") and k["desc_contains"] not in ob["desc"]:
            continue
        return True
    return False


def verify_unit(unit, use_cache=True):
    """Returns dict(status, obligations, wall, ...). status in ok|failed|tooling."""
    if unit.get("native"):
        return verify_unit_native(unit)
    t0 = time.time()
    workdir = tempfile.mkdtemp(prefix="vu_", dir=os.environ.get("VERIF_SCRATCH", "/var/tmp"))
    res = {"unit": unit["name"], "status": "tooling", "obligations": [], "reason": "",
           "cached": False, "solver_s": 0.0}
    try:
        gb, info = build_unit(unit, workdir)
        if info.get("bounded_fallback"):
            unit = dict(unit, loops=None, unwind=unit.get("fallback_unwind", 3), unwindset=[],
                        solver=unit["solver"] or "--sat-solver cadical")
            res["bounded_fallback"] = info["bounded_fallback"]
        res["pipeline"] = info["steps"]
        res["loop_contracts"] = info.get("loop_contracts")
        ckey = info["key"]
        cpath = os.path.join(CACHE, ckey + ".json")
        if use_cache and os.path.exists(cpath):
            try:
                c = json.load(open(cpath))
                c["cached"] = True
                c["wall"] = time.time() - t0
                return c
            except Exception:
                pass
        ctags = contract_tags(unit, workdir)
        if unit.get("enforce") and unit["enforce"] not in ctags:
            raise Tooling("no tagged contract found for enforced function " + unit["enforce"])
        outp = os.path.join(workdir, "out.txt")
        cmd = cbmc_cmd(unit, gb)
        res["pipeline"].append(" ".join(cmd))
        r = run(cmd, unit["timeout"], unit["mem_gb"], stdout_path=outp)
        res["solver_s"] = round(r["wall"], 2)
        if r["timeout"]:
            raise Tooling("cbmc timeout after %ss" % unit["timeout"])
        results, msgs = parse_cbmc_text(outp)
        if results is None:
            raise Tooling("cbmc produced no result list (rc=%s): %s %s" % (r["rc"], msgs[-1500:], r["err"][-500:]))
        msgs = open(outp, errors="replace").read() if os.path.getsize(outp) < (64 << 20) else msgs
        if "ignoring" in msgs and "forall" in msgs:
            raise Tooling("quantifier ignored by back end")
        obs = classify(unit, results, ctags)
        if (info.get("loop_contracts") or {}).get("fallback_bound"):
            res["loop_fallback_bound"] = info["loop_contracts"]["fallback_bound"]
            for o in obs:
                if o["kind"] == "safety" and o["status"] != "SUCCESS" and \
                        re.search(r"loop_invariant|loop_assigns|loop_decreases|loop_step|\.assigns\.", o["id"]):
                    o["kind"] = "excluded"  # contract of a rewritten loop: undecided, not a violation
                    o["desc"] += " [loop header rewritten: contract bound by position, this obligation is not counted]"
        if res.get("bounded_fallback"):
            hit = [o for o in obs if o["kind"] == "tagged" and o["status"] == "FAILURE"]
            if not hit:
                raise Tooling("loop contracts cannot be attached (%s); the bounded fall-back run (unwind %d) found no failing tagged obligation: undecided" %
                              (res["bounded_fallback"], unit["unwind"]))
            for o in obs:
                if o["kind"] != "tagged" and o["kind"] != "cover" and o["status"] != "SUCCESS":
                    o["kind"] = "excluded"  # unwinding assertions and the like: the run is bounded on purpose
            for o in hit:
                o["desc"] += " [found by the bounded fall-back run: the function's loop structure changed and the loop contracts could not be attached]"
        res["obligations"] = obs
        if not obs:
            raise Tooling("zero obligations generated")
        # vacuity guards
        if unit.get("enforce"):
            npost = sum(1 for o in obs if re.match(re.escape(unit["enforce"]) + r"\.postcondition\.\d+$", o["id"]))
            if npost != len(ctags[unit["enforce"]]):
                raise Tooling("expected %d postconditions of %s, cbmc reports %d" %
                              (len(ctags[unit["enforce"]]), unit["enforce"], npost))
        if unit["loops"]:
            if not any("loop_invariant_step" in o["id"] or "loop invariant is preserved" in o["desc"].lower()
                       or "invariant after step" in o["desc"].lower() for o in obs):
                raise Tooling("loop contract not applied (no loop_invariant_step obligation)")
        undecided = [o for o in obs if o["status"] not in ("SUCCESS", "FAILURE")]
        if undecided and not any(o["kind"] not in ("cover", "excluded") and o["status"] == "FAILURE" for o in obs):
            # CBMC leaves sibling checks of an already failed expression UNKNOWN; without any
            # failure an undecided obligation is a tool limit, never a pass and never a violation
            raise Tooling("undecided obligations: %s" % [(o["id"], o["status"]) for o in undecided[:5]])
        covers = [o for o in obs if o["kind"] == "cover"]
        if not covers:
            raise Tooling("unit has no reachability guard (VCOVER/H_END)")
        failed = [o for o in obs if o["kind"] not in ("cover", "excluded") and o["status"] == "FAILURE"]
        vac = [o for o in covers if o["status"] == "SUCCESS"]
        if vac and not failed:
            # (a changed tree may both fail obligations and make a cover unreachable: the
            # failures are reported; vacuity only matters for a run that would otherwise pass)
            raise Tooling("vacuity: unreachable cover(s): %s" % [o["desc"] for o in vac])
        res["unreachable_covers"] = [o["desc"] for o in vac]
        if failed:
            res["status"] = "failed"
        want_trace = [o for o in failed if not listed_finding(unit, o)]
        if want_trace:
            # second run with traces for the failed obligations only
            outp2 = os.path.join(workdir, "trace.json")
            cmd2 = cbmc_cmd(unit, gb, trace=True, props=[o["id"] for o in want_trace[:12]])
            r2 = run(cmd2, unit["timeout"], unit["mem_gb"], stdout_path=outp2)
            results2, _ = parse_cbmc(outp2) if not r2["timeout"] else (None, "")
            by = {x.get("property"): x for x in (results2 or [])}
            for o in failed:
                x = by.get(o["id"])
                if x and x.get("trace"):
                    o["nd_script"] = nd_script(x["trace"])
                    tail = []
                    for st in x["trace"][-40:]:
                        if st.get("stepType") in ("assignment", "failure") and not st.get("hidden"):
                            tail.append({"step": st.get("stepType"), "lhs": st.get("lhs"),
                                         "value": (st.get("value") or {}).get("data"),
                                         "fn": st.get("sourceLocation", {}).get("function"),
                                         "line": st.get("sourceLocation", {}).get("line"),
                                         "reason": st.get("reason")})
                    o["trace_tail"] = tail
        if not failed:
            res["status"] = "ok"
        res["reason"] = ""
    except Tooling as e:
        res["status"] = "tooling"
        res["reason"] = str(e)
    except Exception as e:  # noqa
        import traceback
        res["status"] = "tooling"
        res["reason"] = "internal: " + traceback.format_exc()[-2000:]
    finally:
        shutil.rmtree(workdir, ignore_errors=True)
    res["wall"] = round(time.time() - t0, 2)
    if res["status"] in ("ok", "failed") and use_cache and "ckey" not in res:
        try:
            os.makedirs(CACHE, exist_ok=True)
            tmp = os.path.join(CACHE, "%s.%d.tmp" % (ckey, os.getpid()))
            json.dump(res, open(tmp, "w"))
            os.replace(tmp, cpath)
        except Exception:
            pass
    return res


# ----------------------------------------------------------------------------- replay
NATIVE_MAIN = r'''
#include <stdio.h>
#include <stdlib.h>
#include <string.h>
int verif_failed = 0;
static unsigned long verif_script[65536];
static int verif_n = 0, verif_i = 0;
unsigned long verif_nd_next(const char* kind)
{
    if (verif_i < verif_n) return verif_script[verif_i++];
    return 0;
}
void ENTRY(void);
int main(int argc, char** argv)
{
    FILE* f = fopen(argv[1], "r");
    if (!f) return 4;
    while (verif_n < 65536 && fscanf(f, "%lu", &verif_script[verif_n]) == 1) verif_n++;
    fclose(f);
    ENTRY();
    printf("REPLAY-DONE failed=%d consumed=%d/%d\n", verif_failed, verif_i, verif_n);
    return verif_failed ? 1 : 0;
}
'''


def native_replay(unit, script_vals, workdir):
    """Build the same harness natively (ASan+UBSan) and run the real function on the
    counterexample inputs. Returns (verdict, output)."""
    src = os.path.join(CONTRACTS, unit["component"], unit["harness"])
    main_c = os.path.join(workdir, "main.c")
    open(main_c, "w").write(NATIVE_MAIN.replace("ENTRY", unit["entry"]))
    exe = os.path.join(workdir, "replay")
    cmd = ["gcc", "-g", "-O0", "-fsanitize=address,undefined", "-fno-sanitize-recover=undefined",
           "-DVERIF_NATIVE", "-DNO_UNIT_TESTS", "-w"] + ["-D" + d for d in unit["defines"]] + \
        inc_flags() + [src, main_c, "-o", exe, "-lpthread", "-lm"]
    r = run(cmd, 300, mem_gb=64)
    if r["rc"] != 0:
        return "replay-build-failed", r["err"][-3000:]
    sp = os.path.join(workdir, "script.txt")
    open(sp, "w").write("\n".join(str(v["value"]) for v in script_vals) + "\n")
    env = dict(os.environ)
    env["ASAN_OPTIONS"] = "detect_leaks=0:abort_on_error=0"
    p = subprocess.run([exe, sp], capture_output=True, text=True, timeout=120, env=env)
    out = (p.stdout + "\n" + p.stderr)[-6000:]
    return ("ran", out, p.returncode)


def replay_failure(unit, ob, prop, outdir):
    """Write the replay file for a failed obligation; returns (path, reproduced)."""
    os.makedirs(outdir, exist_ok=True)
    tag = next((t for t in ob["tags"] if t.startswith(prop + ".")), None) or (ob["tags"][0] if ob["tags"] else "safety")
    safe = re.sub(r"[^\w.-]", "_", "%s-%s-%s" % (prop, unit["name"], ob["id"]))
    path = os.path.join(outdir, safe + ".json")
    rec = {"property": prop, "unit": unit["name"], "obligation": ob["id"], "tag": tag,
           "description": ob["desc"], "source": {"file": ob.get("file"), "line": ob.get("line"),
                                                 "function": ob.get("function")},
           "entry": unit["entry"], "harness": os.path.join("contracts", unit["component"], unit["harness"]),
           "nd_script": ob.get("nd_script"), "cbmc_trace_tail": ob.get("trace_tail"),
           "native": None, "reproduced": False}
    reproduced = False
    if ob.get("nd_script") is not None and not unit.get("no_native"):
        wd = tempfile.mkdtemp(prefix="vr_", dir=os.environ.get("VERIF_SCRATCH", "/var/tmp"))
        try:
            v = native_replay(unit, ob["nd_script"], wd)
            if v[0] == "ran":
                out, rc = v[1], v[2]
                hit_tag = ("REPLAY-FAILED" in out) and any(
                    ("REPLAY-FAILED [" in ln) and (tag in ln or ob["desc"][:40] in ln) for ln in out.split("\n"))
                sanit = ("AddressSanitizer" in out) or ("runtime error:" in out)
                if ob["kind"] == "tagged":
                    reproduced = hit_tag or (sanit and rc != 0)
                else:
                    reproduced = sanit or "REPLAY-FAILED" in out
                rec["native"] = {"rc": rc, "output": out}
            else:
                rec["native"] = {"rc": None, "output": v[1], "note": v[0]}
        except Exception as e:  # noqa
            rec["native"] = {"rc": None, "output": "replay error: %s" % e}
        finally:
            shutil.rmtree(wd, ignore_errors=True)
    rec["reproduced"] = reproduced
    json.dump(rec, open(path, "w"), indent=1)
    return path, reproduced
