/* Runtime representation invariant, contracts and harnesses for acquire.c */

/* Everything in this file is specification text and harness code (RI is evaluated dozens of
 * times per unit, each evaluation dereferences the runtime ~200 times): the pointer checks
 * CBMC would generate for the specification's own dereferences are switched off here - they
 * are not obligations of the code under test and they cost 50 s of symbolic execution per
 * unit. The real files and every stub (where a use-after-close shows up as a failed pointer
 * check) are included above this line and keep all checks. */
#pragma CPROVER check push
#pragma CPROVER check disable "pointer"

#define VALID(rt, s) ((((rt)->valid_video_streams) >> (s)) & 1)
#define WORKER_USES_CAM(rt, s) (ag.live[s][0] && (rt)->video[s].source.is_running)
#define WORKER_USES_STO(rt, s) (ag.live[s][2] && (rt)->video[s].sink.is_running)

#define WIRED(rt, s)                                                                          \
    ((rt)->video[s].source.to_sink == &(rt)->video[s].sink.in &&                              \
     (rt)->video[s].source.to_filter == &(rt)->video[s].filter.in &&                          \
     (rt)->video[s].filter.out == &(rt)->video[s].sink.in &&                                  \
     (rt)->video[s].source.sig_stop_filter == sig_source_stop_filter &&                       \
     (rt)->video[s].source.sig_stop_sink == sig_source_stop_sink &&                           \
     (rt)->video[s].source.await_filter_reset == await_filter_reset &&                        \
     (rt)->video[s].sink.sig_stop_source == sig_sink_stop_source &&                           \
     (rt)->video[s].stream_id == (s))

#define RI_STREAM(rt, s)                                                                      \
    (WIRED(rt, s) &&                                                                          \
     IMPL(!ag.live[s][0], (rt)->video[s].source.is_running == 0) &&                           \
     IMPL(!ag.live[s][1], (rt)->video[s].filter.is_running == 0) &&                           \
     IMPL(!ag.live[s][2], (rt)->video[s].sink.is_running == 0) &&                             \
     IMPL(WORKER_USES_CAM(rt, s), (rt)->video[s].source.camera != 0) &&                       \
     IMPL(WORKER_USES_STO(rt, s), (rt)->video[s].sink.storage != 0) &&                        \
     /* a device is Running only on behalf of a worker that has not been joined yet */       \
     IMPL((rt)->video[s].source.camera != 0 &&                                                \
            (rt)->video[s].source.camera->state == DeviceState_Running, ag.live[s][0]) &&     \
     IMPL((rt)->video[s].sink.storage != 0 &&                                                 \
            (rt)->video[s].sink.storage->state == DeviceState_Running, ag.live[s][2]) &&      \
     /* while a source body runs nobody else has raised its filter's or sink's stop flag:   */ \
     /* those flags mean "the source has committed its last frame" (rely of sink.thread)    */ \
     IMPL(ag.live[s][0] && (rt)->video[s].source.is_running,                                  \
          !(rt)->video[s].filter.is_stopping && !(rt)->video[s].sink.is_stopping) &&          \
     /* a filter or sink worker without a source worker has been told to stop */             \
     IMPL(ag.live[s][1] && !ag.live[s][0], (rt)->video[s].filter.is_stopping) &&              \
     IMPL(ag.live[s][2] && !ag.live[s][0], (rt)->video[s].sink.is_stopping) &&                \
     IFF((rt)->video[s].monitor.reader.state == ChannelState_Mapped, ag.mon_mapped[s]) &&     \
     (rt)->video[s].monitor.reader.status == Channel_Ok && ag.mon_intervals[s] >= 0 &&        \
     ag.mon_intervals[s] <= 2 && IMPL(ag.mon_mapped[s], ag.mon_intervals[s] >= 1) &&          \
     ag.wr_intervals[s][0] >= 0 && ag.wr_intervals[s][0] <= 2 && ag.wr_intervals[s][1] >= 0 && \
     ag.wr_intervals[s][1] <= 2 && !ag.wr_mapped[s][0] && !ag.wr_mapped[s][1] &&              \
     (rt)->video[s].sink.reader.state == ChannelState_Unmapped &&                             \
     (rt)->video[s].filter.reader.state == ChannelState_Unmapped &&                           \
     IMPL(ag.wr_intervals[s][0] > 0, (rt)->video[s].sink.reader.id != 0) &&                   \
     IMPL(ag.wr_intervals[s][1] > 0, (rt)->video[s].filter.reader.id != 0))

#define RI(rt)                                                                                \
    (RI_STREAM(rt, 0) && RI_STREAM(rt, 1) &&                                                  \
     ((rt)->state == DeviceState_AwaitingConfiguration || (rt)->state == DeviceState_Armed || \
      (rt)->state == DeviceState_Running) &&                                                  \
     (rt)->valid_video_streams <= 3 && ag.hang == 0)

#define NO_WORKER(s) (!ag.live[s][0] && !ag.live[s][1] && !ag.live[s][2])
#define DEVICES_OPEN(rt)                                                                      \
    (((rt)->video[0].source.camera != 0) + ((rt)->video[1].source.camera != 0))
#define STORES_OPEN(rt)                                                                       \
    (((rt)->video[0].sink.storage != 0) + ((rt)->video[1].sink.storage != 0))
/* every device that was opened and not closed is referenced by exactly one slot */
#define NO_LEAK(rt)                                                                           \
    (ag.cam_opens - ag.cam_closes == DEVICES_OPEN(rt) &&                                      \
     ag.sto_opens - ag.sto_closes == STORES_OPEN(rt))

static int g_valid0;
static int g_state0;
static int g_cam_closes0, g_sto_closes0, g_cam_opens0, g_sto_opens0;

#define STOPPED_STREAM(rt, s)                                                                 \
    (NO_WORKER(s) && ag.accept[s] == 1 &&                                                     \
     (rt)->video[s].monitor.reader.state == ChannelState_Unmapped &&                          \
     IMPL((rt)->video[s].monitor.reader.id != 0, ag.mon_intervals[s] == 0) &&                 \
     (rt)->video[s].monitor.reader.status == Channel_Ok &&                                    \
     ((rt)->video[s].source.camera == 0 ||                                                    \
      (rt)->video[s].source.camera->state != DeviceState_Running) &&                          \
     ((rt)->video[s].sink.storage == 0 ||                                                     \
      (rt)->video[s].sink.storage->state != DeviceState_Running))

#define STOP_POST(ENS)                                                                        \
    ENS("[C07.workers-joined-devices-stopped,C06.nothing-delivered-later] for every valid "  \
        "stream: all three workers are joined, camera and storage are not running, the sink "  \
        "channel accepts writes again, the monitor reader is unmapped, drained and Ok",        \
        IMPL(g_valid0 & 1, STOPPED_STREAM(g_rt, 0)) && IMPL(g_valid0 & 2, STOPPED_STREAM(g_rt, 1))) \
    ENS("[C07.armed-after-stop,C08.armed-after-stop] the runtime is Armed and returns Ok",   \
        g_rt->state == DeviceState_Armed && RET == AcquireStatus_Ok)                          \
    ENS("[C07.join-only-terminating-workers] no join could block forever", ag.hang == 0)      \
    ENS("[C08.no-device-closed-by-stop] stop and abort close no device",                     \
        ag.cam_closes == g_cam_closes0 && ag.sto_closes == g_sto_closes0 && NO_LEAK(g_rt))    \
    ENS("[C08.invariant] the runtime invariant is preserved", RI(g_rt))

#define CONTRACT_acquire_stop(REQ, ENS, ASG, FRE)                                             \
    REQ(self_ == &g_rt->handle && RI(g_rt) && NO_LEAK(g_rt))                                  \
    STOP_POST(ENS)                                                                            \
    ASG()

#define CONTRACT_acquire_abort(REQ, ENS, ASG, FRE)                                            \
    REQ(self_ == &g_rt->handle && RI(g_rt) && NO_LEAK(g_rt))                                  \
    STOP_POST(ENS)                                                                            \
    ENS("[C07.abort-refuses-then-reaccepts] abort told every valid stream's sink channel "   \
        "to refuse writes before stopping (and stop re-enabled them)",                        \
        IMPL(g_valid0 & 1, ag.n_accept_calls[0] == 2) && IMPL(g_valid0 & 2, ag.n_accept_calls[1] == 2)) \
    ASG()

#define STARTED_STREAM(rt, s)                                                                 \
    (ag.live[s][0] && ag.live[s][1] && ag.live[s][2] && (rt)->video[s].source.is_running &&   \
     (rt)->video[s].sink.is_running && (rt)->video[s].filter.is_running &&                    \
     (rt)->video[s].source.camera != 0 && (rt)->video[s].sink.storage != 0)
#define NO_BODY_RUNNING(rt, s)                                                                \
    (!(rt)->video[s].source.is_running && !(rt)->video[s].filter.is_running &&                \
     !(rt)->video[s].sink.is_running)
#define CONTRACT_acquire_start(REQ, ENS, ASG, FRE)                                            \
    REQ(self_ == &g_rt->handle && RI(g_rt) && NO_LEAK(g_rt))                                  \
    /* start is called after get_state reported a non-running state or after stop: no    */ \
    /* worker body is running (workers that finished may still be unjoined)               */ \
    REQ(NO_BODY_RUNNING(g_rt, 0) && NO_BODY_RUNNING(g_rt, 1))                                 \
    ENS("[C08.running-iff-started] Ok: every valid stream has its three workers alive and "  \
        "the runtime is Running",                                                             \
        IMPL(RET == AcquireStatus_Ok,                                                         \
             g_rt->state == DeviceState_Running && g_valid0 != 0 &&                           \
               IMPL(g_valid0 & 1, STARTED_STREAM(g_rt, 0)) &&                                 \
               IMPL(g_valid0 & 2, STARTED_STREAM(g_rt, 1))))                                  \
    ENS("[C08.failed-start-not-running] Error: the runtime does not claim to be Running",    \
        IMPL(RET != AcquireStatus_Ok, g_rt->state == DeviceState_AwaitingConfiguration))      \
    ENS("[C07.workers-always-stoppable,C08.invariant,C09.next-acquisition-starts-clean] "    \
        "the runtime invariant is preserved: in particular no filter or sink worker is left " \
        "alive without a source worker and without a stop request (a later stop, abort or "   \
        "shutdown would never return), and no started filter or sink carries a stop flag "    \
        "left over from an earlier (failed) acquisition while its source runs (it would "     \
        "exit at once and the new acquisition's frames would never be stored)",               \
        RI(g_rt))                                                                             \
    ENS("[C08.no-device-closed-by-start] start opens and closes no device",                  \
        ag.cam_closes == g_cam_closes0 && ag.sto_closes == g_sto_closes0 && NO_LEAK(g_rt))    \
    ASG()

#define CONTRACT_acquire_get_state(REQ, ENS, ASG, FRE)                                        \
    REQ(self_ == 0 || (self_ == &g_rt->handle && RI(g_rt)))                                   \
    ENS("[C08.running-only-while-workers-alive] Running is reported only while some worker " \
        "of a valid stream is alive",                                                         \
        IMPL(self_ != 0 && RET == DeviceState_Running,                                        \
             ((g_valid0 & 1) && !NO_WORKER(0)) || ((g_valid0 & 2) && !NO_WORKER(1))))         \
    ENS("[C08.state-reported] NULL is Closed; a non-running state is reported as stored; a " \
        "Running runtime whose workers have all finished is reported (and stored) as Armed",  \
        self_ == 0 ? RET == DeviceState_Closed                                                \
                   : (g_state0 != DeviceState_Running ? (int)RET == g_state0                  \
                                                      : (RET == DeviceState_Running ||        \
                                                         RET == DeviceState_Armed)) &&        \
                       g_rt->state == RET)                                                    \
    ENS("[C08.invariant] the runtime invariant is preserved", self_ == 0 || RI(g_rt))         \
    ASG()

#define CONTRACT_acquire_shutdown(REQ, ENS, ASG, FRE)                                         \
    REQ(self_ == 0 || (self_ == &g_rt->handle && RI(g_rt) && NO_LEAK(g_rt)))                  \
    ENS("[C08.closed-exactly-once-by-shutdown] every device that was open is closed exactly " \
        "once (a second close or any later use is a memory error) and the device manager is "  \
        "destroyed",                                                                          \
        IMPL(self_ != 0, ag.cam_opens == ag.cam_closes && ag.sto_opens == ag.sto_closes &&    \
                           ag.dm_destroyed == 1 && RET == AcquireStatus_Ok))                  \
    ENS("[C08.no-worker-survives-shutdown] all workers were joined before the devices were " \
        "closed", IMPL(self_ != 0, NO_WORKER(0) && NO_WORKER(1) && ag.hang == 0))             \
    ENS("[C12.bad-input-is-error] NULL runtime is an error", IMPL(self_ == 0, RET == AcquireStatus_Error)) \
    ASG()

static uint32_t g_istream0;
static int g_mon_state0;
#define CONTRACT_acquire_map_read(REQ, ENS, ASG, FRE)                                         \
    REQ(self_ == 0 || (self_ == &g_rt->handle && RI(g_rt)))                                   \
    ENS("[C06.bad-arguments-rejected] NULL arguments, a bad stream index or a reader that "  \
        "still holds a region give Error without touching the channel",                       \
        IMPL(self_ == 0 || beg == 0 || end == 0 || istream >= 2 ||                            \
               g_mon_state0 == ChannelState_Mapped,                                           \
             RET == AcquireStatus_Error && ag.n_mon_map[0] == 0 && ag.n_mon_map[1] == 0))     \
    ENS("[C06.map-is-one-channel-read] otherwise exactly one read_map on the stream's own "  \
        "monitor reader; the region returned is that slice",                                  \
        IMPL(self_ != 0 && beg != 0 && end != 0 && istream < 2 &&                             \
               g_mon_state0 == ChannelState_Unmapped,                                         \
             RET == AcquireStatus_Ok && ag.n_mon_map[istream] == 1 &&                         \
               ag.n_mon_map[1 - istream] == 0 &&                                              \
               IFF(*beg != *end, g_rt->video[istream].monitor.reader.state == ChannelState_Mapped))) \
    ENS("[C06.status-stays-ok,C08.invariant] the invariant (monitor status Ok) is preserved",\
        self_ == 0 || RI(g_rt))                                                               \
    ASG()

#define CONTRACT_acquire_unmap_read(REQ, ENS, ASG, FRE)                                       \
    REQ(self_ == 0 || (self_ == &g_rt->handle && RI(g_rt)))                                   \
    ENS("[C06.bad-arguments-rejected] NULL runtime or a bad stream index give Error",        \
        IMPL(self_ == 0 || istream >= 2, RET == AcquireStatus_Error))                         \
    ENS("[C06.unmap-releases] otherwise the stream's monitor reader ends unmapped",          \
        IMPL(self_ != 0 && istream < 2,                                                       \
             RET == AcquireStatus_Ok &&                                                       \
               g_rt->video[istream].monitor.reader.state == ChannelState_Unmapped))           \
    ENS("[C08.invariant] the invariant is preserved", self_ == 0 || RI(g_rt))                 \
    ASG()

#define CONTRACT_acquire_init(REQ, ENS, ASG, FRE)                                             \
    ENS("[C12.bad-input-is-error] a NULL reporter gives NULL", IMPL(reporter == 0, RET == 0)) \
    ENS("[C04.wiring,C08.invariant] a new runtime awaits configuration, has no device and "  \
        "no worker, and each stream's source writes into its own filter and sink channels "   \
        "(two streams share nothing)",                                                        \
        IMPL(RET != 0, (g_rt = containerof(RET, struct runtime, handle)) != 0 && RI(g_rt) &&  \
                         g_rt->state == DeviceState_AwaitingConfiguration &&                  \
                         DEVICES_OPEN(g_rt) == 0 && STORES_OPEN(g_rt) == 0 &&                 \
                         g_rt->valid_video_streams == 0 &&                                    \
                         &g_rt->video[0].sink.in != &g_rt->video[1].sink.in))                 \
    ASG()

#define CONTRACT_acquire_configure(REQ, ENS, ASG, FRE)                                        \
    REQ(self_ == &g_rt->handle && settings != 0 && RI(g_rt) && NO_LEAK(g_rt))                 \
    ENS("[C08.no-leak] after configure every open device is referenced by exactly one slot",\
        NO_LEAK(g_rt))                                                                        \
    ENS("[C08.invariant] the runtime invariant is preserved (unless a device was closed "    \
        "under a live worker, which is reported by its own obligation)",                      \
        ag.closed_under_worker || RI(g_rt))                                                   \
    ENS("[C08.configured-state] with at least one valid stream the runtime is Armed (or "    \
        "stays Running); with none it awaits configuration",                                  \
        g_rt->valid_video_streams != 0                                                        \
          ? (g_rt->state == DeviceState_Armed || g_rt->state == DeviceState_Running)          \
          : g_rt->state == DeviceState_AwaitingConfiguration)                                 \
    ASG()

#define CONTRACT_acquire_execute_trigger(REQ, ENS, ASG, FRE)                                  \
    REQ(self_ == &g_rt->handle && RI(g_rt) && istream < 2)                                    \
    ENS("[C08.invariant] the invariant is preserved; nothing is opened or closed",           \
        RI(g_rt) && ag.cam_closes == g_cam_closes0)                                           \
    ASG()

/* Stub contract of acquire_abort for the units that verify its callers (acquire_shutdown,
 * acquire_configure), selected with goto-instrument --replace-calls. It asserts the
 * precondition of CONTRACT_acquire_abort at the call site and then establishes exactly its
 * postcondition STOP_POST: the workers of every valid stream are joined (through the same
 * thread_join stub, so the exit effects of the worker bodies are applied), the sink channel
 * accepts writes, the monitor reader is unmapped and drained, the runtime is Armed. The
 * real acquire_abort is proved against that contract in acquire.abort. */
enum AcquireStatusCode
stub_acquire_abort(struct AcquireRuntime* self_)
{
    VASSERT(self_ == &g_rt->handle && (ag.closed_under_worker || (RI(g_rt) && NO_LEAK(g_rt))),
            "[C08.callsite-invariant] acquire_abort is called on a runtime that satisfies the invariant (unless a device was closed under a live worker, which is reported by its own obligation)");
    for (int s = 0; s < 2; ++s) {
        if (!VALID(g_rt, s))
            continue;
        struct video_s* v = &g_rt->video[s];
        v->source.is_stopping = 1;
        thread_join_impl(s, 0);
        thread_join_impl(s, 1);
        thread_join_impl(s, 2);
        ag.accept[s] = 1;
        ag.n_accept_calls[s] += 2;
        v->monitor.reader.state = ChannelState_Unmapped;
        ag.mon_mapped[s] = 0;
        if (v->monitor.reader.id)
            ag.mon_intervals[s] = 0;
    }
    g_rt->state = DeviceState_Armed;
    return AcquireStatus_Ok;
}

/* ================================================================== harnesses */
#define A_ 0 /* the stream the reachability covers speak about (both streams are arbitrary) */
static void
dummy_reporter(int is_error, const char* file, int line, const char* function, const char* msg)
{
}

static void
arb_device_state(enum DeviceState* st)
{
    unsigned v = nd_uchar() % 3;
    *st = v == 0 ? DeviceState_AwaitingConfiguration : v == 1 ? DeviceState_Armed : DeviceState_Running;
}

/* an arbitrary runtime satisfying RI: a fresh runtime (real acquire_init) perturbed */
static struct AcquireRuntime*
arb_runtime(void)
{
    memset(&ag, 0, sizeof(ag));
    /* Any heap runtime satisfying RI (acquire.init proves that the real acquire_init
     * establishes RI): a zeroed object (field-wise struct assignment; the byte-wise memset of
     * the real initialiser made every later field read a byte extraction and cost 80 s per
     * unit) wired as WIRED() demands, then perturbed below in every field the API functions and
     * the stubs branch on (states, flags, devices, identifiers, readers, ghost worker state).
     * Fields left zero: stored settings and the channels' internals (behind stub contracts). */
    static const struct runtime zero_rt;
    g_rt = malloc(sizeof(struct runtime));
    VASSUME(g_rt != 0);
    *g_rt = zero_rt;
    for (int s = 0; s < 2; ++s) {
        struct video_s* v = &g_rt->video[s];
        v->stream_id = (uint8_t)s;
        v->source.to_sink = &v->sink.in;
        v->source.to_filter = &v->filter.in;
        v->filter.out = &v->sink.in;
        v->source.sig_stop_filter = sig_source_stop_filter;
        v->source.sig_stop_sink = sig_source_stop_sink;
        v->source.await_filter_reset = await_filter_reset;
        v->sink.sig_stop_source = sig_sink_stop_source;
    }
    struct AcquireRuntime* h = &g_rt->handle;
    g_rt->valid_video_streams = nd_uchar();
    unsigned st = nd_uchar() % 3;
    g_rt->state = st == 0 ? DeviceState_AwaitingConfiguration : st == 1 ? DeviceState_Armed : DeviceState_Running;
    for (int s = 0; s < 2; ++s) {
        struct video_s* v = &g_rt->video[s];
        if (nd_bool()) {
            struct Camera* d = malloc(sizeof(*d));
            VASSUME(d != 0);
            *d = zero_camera;
            arb_device_state(&d->state);
            v->source.camera = d;
            ag.cam_opens++;
        }
        if (nd_bool()) {
            struct Storage* d = malloc(sizeof(*d));
            VASSUME(d != 0);
            *d = zero_storage;
            arb_device_state(&d->state);
            v->sink.storage = d;
            ag.sto_opens++;
        }
        v->source.last_camera_id.driver_id = nd_uchar();
        v->source.last_camera_id.device_id = nd_uchar();
        v->sink.identifier.driver_id = nd_uchar();
        v->sink.identifier.device_id = nd_uchar();
        for (int k = 0; k < 3; ++k)
            ag.live[s][k] = nd_bool();
        v->source.is_running = nd_bool();
        v->source.is_stopping = nd_bool();
        v->filter.is_running = nd_bool();
        v->filter.is_stopping = nd_bool();
        v->sink.is_running = nd_bool();
        v->sink.is_stopping = nd_bool();
        v->source.enable_filter = nd_bool();
        ag.accept[s] = nd_bool();
        v->monitor.reader.id = nd_bool() ? 1 + (unsigned)s : 0;
        v->monitor.reader.state = nd_bool() ? ChannelState_Mapped : ChannelState_Unmapped;
        v->monitor.reader.status = Channel_Ok;
        ag.mon_mapped[s] = v->monitor.reader.state == ChannelState_Mapped;
        ag.mon_intervals[s] = nd_uchar() % 3;
        VASSUME(v->monitor.reader.id != 0 || !ag.mon_mapped[s]);
        /* the workers' own readers: unmapped (every worker exit path unmaps), any leftovers */
        ag.wr_intervals[s][0] = nd_uchar() % 3;
        ag.wr_intervals[s][1] = nd_uchar() % 3;
        v->sink.reader.id = (ag.wr_intervals[s][0] || nd_bool()) ? 1 : 0;
        v->filter.reader.id = (ag.wr_intervals[s][1] || nd_bool()) ? 3 : 0;
        v->sink.reader.state = ChannelState_Unmapped;
        v->filter.reader.state = ChannelState_Unmapped;
    }
    VASSUME(RI(g_rt));
    g_valid0 = g_rt->valid_video_streams;
    g_state0 = g_rt->state;
    g_cam_closes0 = ag.cam_closes;
    g_sto_closes0 = ag.sto_closes;
    g_cam_opens0 = ag.cam_opens;
    g_sto_opens0 = ag.sto_opens;
    return h;
}

void
h_acquire_init(void)
{
    memset(&ag, 0, sizeof(ag));
    void (*reporter)(int, const char*, int, const char*, const char*) = nd_bool() ? dummy_reporter : 0;
    struct AcquireRuntime* ret;
    H_CALL(acquire_init, ret = acquire_init(reporter));
    VCOVER(ret != 0, "init succeeds");
    VCOVER(ret == 0 && reporter != 0, "device manager init fails");
    H_END;
}

void
h_acquire_stop(void)
{
    struct AcquireRuntime* self_ = arb_runtime();
    enum AcquireStatusCode ret;
    H_CALL(acquire_stop, ret = acquire_stop(self_));
    VCOVER(((g_valid0 >> A_) & 1) && ag.joins[A_][0] && ag.joins[A_][2], "a running stream stopped");
    VCOVER(((g_valid0 >> A_) & 1) && ag.n_mon_map[A_] == 3, "monitor flush took three reads");
    VCOVER(g_valid0 == 0, "no valid stream");
    VCOVER(g_valid0 == 3 && ag.joins[0][0] && ag.joins[1][2], "two running streams stopped");
    H_END;
}

void
h_acquire_abort(void)
{
    struct AcquireRuntime* self_ = arb_runtime();
    enum AcquireStatusCode ret;
    H_CALL(acquire_abort, ret = acquire_abort(self_));
    VCOVER(((g_valid0 >> A_) & 1) && ag.joins[A_][0] && ag.joins[A_][2], "a running stream aborted");
    VCOVER(((g_valid0 >> A_) & 1) && g_rt->video[A_].source.camera == 0, "abort with no camera open");
    H_END;
}

void
h_acquire_start(void)
{
    struct AcquireRuntime* self_ = arb_runtime();
    enum AcquireStatusCode ret;
    H_CALL(acquire_start, ret = acquire_start(self_));
    VCOVER(ret == AcquireStatus_Ok && ((g_valid0 >> A_) & 1), "a stream started");
    VCOVER(ret != AcquireStatus_Ok && ag.creates[A_][2] && !ag.creates[A_][0], "sink started, source start failed");
    VCOVER(ret != AcquireStatus_Ok && g_valid0 == 0, "no valid stream");
    H_END;
}

void
h_acquire_get_state(void)
{
    struct AcquireRuntime* self_ = arb_runtime();
    if (nd_bool())
        self_ = 0;
    enum DeviceState ret;
    H_CALL(acquire_get_state, ret = acquire_get_state(self_));
    VCOVER(self_ && g_state0 == DeviceState_Running && ret == DeviceState_Armed, "finished acquisition reported Armed");
    VCOVER(self_ && ret == DeviceState_Running, "running");
    H_END;
}

void
h_acquire_shutdown(void)
{
    struct AcquireRuntime* self_ = arb_runtime();
    if (nd_bool()) {
        /* NULL handle: nothing to shut down (the arbitrary runtime is left alone) */
        self_ = 0;
    }
    enum AcquireStatusCode ret;
    H_CALL(acquire_shutdown, ret = acquire_shutdown(self_));
    VCOVER(self_ && g_cam_opens0 == 1 && g_sto_opens0 == 1 && ((g_valid0 >> A_) & 1), "a configured stream shut down");
    VCOVER(self_ && !((g_valid0 >> A_) & 1) && g_cam_opens0 == 1, "a device of an invalid stream is closed too");
    H_END;
}

void
h_acquire_map_read(void)
{
    struct AcquireRuntime* h = arb_runtime();
    const struct AcquireRuntime* self_ = nd_bool() ? h : 0;
    uint32_t istream = nd_uint();
    struct VideoFrame *b = 0, *e = 0;
    struct VideoFrame** beg = nd_bool() ? &b : 0;
    struct VideoFrame** end = nd_bool() ? &e : 0;
    g_mon_state0 = istream < 2 ? (int)g_rt->video[istream].monitor.reader.state : 0;
    enum AcquireStatusCode ret;
    H_CALL(acquire_map_read, ret = acquire_map_read(self_, istream, beg, end));
    VCOVER(ret == AcquireStatus_Ok && b != e && istream == 1, "stream 1 mapped some frames");
    VCOVER(ret == AcquireStatus_Ok && b == e, "nothing to read");
    VCOVER(ret == AcquireStatus_Error && self_ && beg && end && istream < 2, "reader still mapped");
    H_END;
}

void
h_acquire_unmap_read(void)
{
    struct AcquireRuntime* h = arb_runtime();
    const struct AcquireRuntime* self_ = nd_bool() ? h : 0;
    uint32_t istream = nd_uint();
    size_t consumed_bytes = nd_ulong();
    enum AcquireStatusCode ret;
    H_CALL(acquire_unmap_read, ret = acquire_unmap_read(self_, istream, consumed_bytes));
    VCOVER(ret == AcquireStatus_Ok && istream == 1, "stream 1 unmapped");
    H_END;
}

void
h_acquire_execute_trigger(void)
{
    struct AcquireRuntime* self_ = arb_runtime();
    uint32_t istream = nd_uint();
    VASSUME(istream < 2);
    enum AcquireStatusCode ret;
    H_CALL(acquire_execute_trigger, ret = acquire_execute_trigger(self_, istream));
    VCOVER(ret == AcquireStatus_Ok, "trigger executed");
    VCOVER(ret == AcquireStatus_Error, "no camera");
    H_END;
}

static struct AcquireProperties g_props;
void
h_acquire_configure(void)
{
    struct AcquireRuntime* self_ = arb_runtime();
    memset(&g_props, 0, sizeof(g_props));
    for (int s = 0; s < 2; ++s) {
        g_props.video[s].camera.identifier.kind = (enum DeviceKind)(nd_uchar() % 3);
        g_props.video[s].camera.identifier.driver_id = nd_uchar();
        g_props.video[s].camera.identifier.device_id = nd_uchar();
        g_props.video[s].storage.identifier.kind = (enum DeviceKind)(nd_uchar() % 3);
        g_props.video[s].storage.identifier.driver_id = nd_uchar();
        g_props.video[s].storage.identifier.device_id = nd_uchar();
        g_props.video[s].max_frame_count = nd_ulong();
        g_props.video[s].frame_average_count = nd_uint();
    }
    struct AcquireProperties* settings = &g_props;
    enum AcquireStatusCode ret;
    H_CALL(acquire_configure, ret = acquire_configure(self_, settings));
    VCOVER(((g_valid0 >> A_) & 1), "the stream is configured");
    VCOVER(g_rt->valid_video_streams == 0, "nothing configured");
    VCOVER(ag.cam_closes > g_cam_closes0 && ag.cam_opens > g_cam_opens0, "camera switched");
    H_END;
}
#pragma CPROVER check pop
