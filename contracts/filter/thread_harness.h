/* contracts and harnesses for process_data and video_filter_thread */
static struct VideoFrame* g_acc_ptr0;
static uint64_t g_count0;
static int g_pending0;
static unsigned long g_window0;

#define PD_LINK(accp, cnt)                                                                    \
    (IFF(*(accp) != 0, fg.pending) && IMPL(fg.pending, (uint8_t*)*(accp) == g_accbuf &&       \
                                                        *(cnt) == fg.window && fg.window >= 1 && \
                                                        fg.window < g_flt.filter_window_frames) && \
     IMPL(!fg.pending, *(cnt) == 0))

#define CONTRACT_process_data(REQ, ENS, ASG, FRE)                                             \
    REQ(self == &g_flt && self->out == &g_out && self->filter_window_frames >= 2 &&           \
        accumulator != 0 && frame_count != 0 && PD_LINK(accumulator, frame_count) &&          \
        !fg.in_mapped)                                                                        \
    ENS("[C10.state-linked] the caller's accumulator pointer and frame count describe the "  \
        "pending window", IMPL(RET, PD_LINK(accumulator, frame_count)))                       \
    ENS("[C10.no-frame-skipped-or-doubled] while the output accepts writes every iterated "  \
        "frame is added exactly once",                                                        \
        IMPL(RET && fg.refused == 0, fg.added == fg.iterated))             \
    ENS("[C10.input-fully-consumed] the mapped input slice is consumed completely and the "  \
        "reader is left unmapped", !fg.in_mapped && IMPL(RET && fg.in_len > 0, fg.in_consumed_all)) \
    ENS("[C10.emitted-frames-wellformed] every emitted frame is f32, sized header+4*pixels "  \
        "rounded to 8, and carries the first frame's id", !fg.bad_emit)                       \
    ENS("[C10.reset-acknowledged] a requested accumulator reset drops the pending window "   \
        "and is acknowledged exactly once",                                                   \
        IMPL(RET && g_reset0, !fg.pending && fg.n_event == 1 && self->sig_accumulator_reset == 0)) \
    ASG()
static int g_reset0;

void
h_process_data(void)
{
    memset(&fg, 0, sizeof(fg));
    memset(&g_flt, 0, sizeof(g_flt));
    g_flt.out = &g_out;
#ifdef PD_LITERAL_K
    g_flt.filter_window_frames = PD_LITERAL_K;
#else
    g_flt.filter_window_frames = nd_uint();
#endif
    g_flt.sig_accumulator_reset = nd_bool();
    g_reset0 = g_flt.sig_accumulator_reset;
    g_npix = nd_ulong();
    VASSUME(g_npix >= 1 && g_npix <= NPX_MAX);
    fg.k = nd_ulong();
    VASSUME(fg.k < g_npix);
    g_inshape.dims.channels = 1;
    g_inshape.dims.width = nd_uint();
    g_inshape.dims.height = nd_uint();
    g_inshape.dims.planes = 1;
    g_inshape.strides.channels = 1;
    g_inshape.strides.width = 1;
    g_inshape.strides.height = nd_long();
    g_inshape.strides.planes = (int64_t)g_npix;
    g_inshape.type = (enum SampleType)nd_uchar();
    VASSUME(SUPPORTED_IN(g_inshape.type)); /* C10 speaks about integer pixel types */
    g_inframe = malloc(HDR);
    VASSUME(g_inframe != 0);
#ifdef VERIF_NATIVE
    VASSUME(g_npix <= (1UL << 20));
#endif
    g_accbuf = malloc(ACC_N);
    VASSUME(g_accbuf != 0);
    /* an arbitrary pending window, or none */
    struct VideoFrame* acc = 0;
    uint64_t cnt = 0;
    if (nd_bool()) {
        fg.pending = 1;
        fg.acc_n = ACC_N;
#ifdef PD_LITERAL_K
        fg.window = PD_LITERAL_K - 1;
#else
        fg.window = nd_ulong();
        VASSUME(fg.window >= 1 && fg.window < g_flt.filter_window_frames);
#endif
        acc = (struct VideoFrame*)g_accbuf;
        acc->shape = g_inshape;
        acc->shape.type = SampleType_f32;
        acc->bytes_of_frame = ACC_N;
        fg.first_id = acc->frame_id;
        cnt = fg.window;
    }
    struct video_filter_s* self = &g_flt;
    struct VideoFrame** accumulator = &acc;
    uint64_t* frame_count = &cnt;
    g_pending0 = fg.pending;
    g_window0 = fg.window;
    int ret;
    H_CALL(process_data, ret = process_data(self, accumulator, frame_count));
    VCOVER(ret && fg.emitted >= 1 && g_pending0, "a pending window is completed and emitted");
#if !defined(PD_LITERAL_K) || PD_LITERAL_K == 2
    VCOVER(ret && fg.emitted >= 1 && !g_pending0 && g_flt.filter_window_frames == 2, "a window of 2 starts and is emitted within one call");
#endif
    VCOVER(ret && fg.pending && !g_pending0, "a new window is left pending");
    VCOVER(ret && g_reset0 && g_pending0, "reset drops a pending window");
    VCOVER(ret && fg.refused, "output refuses a region");
    H_END;
}

/* ---- video_filter_thread: process_data replaced by its stub contract */
static struct thr_ghost
{
    int n_calls, fail_at_call, n_commit_final, pending_after;
} tg;
int
stub_process_data(struct video_filter_s* self, struct VideoFrame** accumulator, uint64_t* frame_count)
{
    VASSERT(self == &g_flt && accumulator != 0 && frame_count != 0, "[C10.callsite] process_data arguments");
    tg.n_calls++;
#ifdef THREAD_MAX_ITER
    if (tg.n_calls >= THREAD_MAX_ITER)
        g_flt.is_stopping = 1; /* bounded stand-in: the stop flag is seen by then */
    else
        g_flt.is_stopping = nd_uchar(); /* other threads may raise it at any time */
#endif
    if (nd_bool()) {
        /* contract (Error path): state reset, nothing pending */
        *accumulator = 0;
        *frame_count = 0;
        fg.pending = 0;
        tg.fail_at_call = 1;
        return 0;
    }
    /* contract: the caller's state is linked to the pending window */
    fg.pending = nd_bool();
    if (fg.pending) {
        *accumulator = (struct VideoFrame*)g_accbuf;
        fg.first_id = ((struct VideoFrame*)g_accbuf)->frame_id;
        fg.window = nd_ulong();
        VASSUME(fg.window >= 1 && fg.window < g_flt.filter_window_frames);
        *frame_count = fg.window;
    } else {
        *accumulator = 0;
        *frame_count = 0;
    }
    return 1;
}

#define CONTRACT_video_filter_thread(REQ, ENS, ASG, FRE)                                      \
    REQ(self == &g_flt && self->out == &g_out && self->is_running == 1)                       \
    ENS("[C07.flags-cleared,C09.flags-cleared] both thread flags are cleared on return",     \
        self->is_running == 0 && self->is_stopping == 0)                                      \
    ENS("[C10.trailing-window-emitted-once,C07.no-write-left-mapped] a pending trailing "    \
        "window is committed exactly once; nothing stays mapped", !fg.pending)                \
    ENS("[C10.flush-after-stop] the input is processed once more after the stop flag",       \
        IMPL(RET == 0, tg.n_calls >= 1))                                                      \
    ENS("[C09.failure-reported] exit code 1 iff processing failed", RET == (tg.fail_at_call ? 1 : 0)) \
    ASG()

void
h_video_filter_thread(void)
{
    memset(&fg, 0, sizeof(fg));
    memset(&tg, 0, sizeof(tg));
    memset(&g_flt, 0, sizeof(g_flt));
    g_flt.out = &g_out;
    g_flt.filter_window_frames = nd_uint();
    VASSUME(g_flt.filter_window_frames >= 2);
    g_flt.is_running = 1;
    g_flt.is_stopping = nd_uchar();
    g_npix = 1;
    g_accbuf = malloc(ACC_N);
    VASSUME(g_accbuf != 0);
    ((struct VideoFrame*)g_accbuf)->bytes_of_frame = ACC_N;
    ((struct VideoFrame*)g_accbuf)->shape.type = SampleType_f32;
    fg.acc_n = ACC_N;
    struct video_filter_s* self = &g_flt;
    int ret;
    H_CALL(video_filter_thread, ret = video_filter_thread(self));
    VCOVER(ret == 0 && fg.emitted == 1, "trailing window committed at exit");
    VCOVER(ret == 1, "processing failure");
    H_END;
}
