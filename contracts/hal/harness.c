/* C11 (also used by C08/C09/C16): contracts on the real HAL wrappers
 *   /repo/acquire-core-libs/src/acquire-device-hal/device/hal/{driver,camera,storage}.c
 * against a protocol-checking ghost driver whose every return code is nondeterministic.
 *
 * The real .c files are #included unmodified.  Differences from the product build:
 * aq_logger is a no-op; device_manager_get_driver (C++) is a stub returning the ghost
 * driver or NULL. */
#include "verif.h"

#include "device/hal/driver.h"
#include "device/hal/camera.h"
#include "device/hal/storage.h"
#include "device/hal/device.manager.h"
#include "device/kit/driver.h"
#include "device/kit/camera.h"
#include "device/kit/storage.h"

#include <stdlib.h>
#include <string.h>

/* ------------------------------------------------------------------ ghost state */
struct hal_ghost
{
    int n_open, n_close, n_describe;
    int n_set, n_get, n_get_meta, n_get_shape, n_start, n_stop, n_trigger,
      n_get_frame, n_append, n_reserve;
    int alive;   /* the device object exists: opened and not yet closed          */
    int started; /* camera: last start returned Ok and no stop since.
                    storage: the driver's own last response declared Running    */
    /* last code returned by each driver entry (-1: not called)                */
    int r_set, r_get, r_get_meta, r_get_shape, r_start, r_stop, r_trigger,
      r_get_frame, r_append;
    /* explicit "old" values, taken by the harness right before the call        */
    int state0;
    int started0;
    int kind; /* DeviceKind the ghost driver serves                              */
    int incomplete; /* the opened device lacks a mandatory interface function   */
    int open_fails, describe_fails;
    void* dev; /* address of the live device object (never dereferenced here)   */
} g;

static struct Driver g_driver;

#define DRIVER_CALLS_BUT_CLOSE                                                 \
    (g.n_set + g.n_get + g.n_get_meta + g.n_get_shape + g.n_start + g.n_stop + \
     g.n_trigger + g.n_get_frame + g.n_append + g.n_reserve)
#define DEVICE_CALLS (DRIVER_CALLS_BUT_CLOSE + g.n_close)

/* ------------------------------------------------------------------ stubs */
void
aq_logger(int is_error,
          const char* file,
          int line,
          const char* function,
          const char* fmt,
          ...)
{
}

const char*
device_kind_as_string(enum DeviceKind k)
{
    return "kind";
}
const char*
device_state_as_string(enum DeviceState s)
{
    return "state";
}

static int g_dm_returns_null;
struct Driver*
device_manager_get_driver(const struct DeviceManager* self,
                          const struct DeviceIdentifier* identifier)
{
    return g_dm_returns_null ? 0 : &g_driver;
}

static enum DeviceStatusCode
nd_status(void)
{
    return nd_bool() ? Device_Ok : Device_Err;
}

static enum DeviceState
nd_state(void)
{
    unsigned s = nd_uchar();
    VASSUME(s < DeviceStateCount);
    return (enum DeviceState)s;
}

#define LEGAL_ALIVE(what)                                                      \
    VASSERT(g.alive, "[C11.nothing-after-close] driver " what                  \
                     " called on a device that is not open")

/* --- camera driver stubs */
static enum DeviceStatusCode
cam_set(struct Camera* c, struct CameraProperties* s)
{
    LEGAL_ALIVE("camera.set");
    g.n_set++;
    return g.r_set = nd_status();
}
static enum DeviceStatusCode
cam_get(const struct Camera* c, struct CameraProperties* s)
{
    LEGAL_ALIVE("camera.get");
    g.n_get++;
    return g.r_get = nd_status();
}
static enum DeviceStatusCode
cam_get_meta(const struct Camera* c, struct CameraPropertyMetadata* m)
{
    LEGAL_ALIVE("camera.get_meta");
    g.n_get_meta++;
    return g.r_get_meta = nd_status();
}
static enum DeviceStatusCode
cam_get_shape(const struct Camera* c, struct ImageShape* s)
{
    LEGAL_ALIVE("camera.get_shape");
    g.n_get_shape++;
    return g.r_get_shape = nd_status();
}
static enum DeviceStatusCode
cam_start(struct Camera* c)
{
    LEGAL_ALIVE("camera.start");
    g.n_start++;
    g.r_start = nd_status();
    g.started = (g.r_start == Device_Ok);
    return g.r_start;
}
static enum DeviceStatusCode
cam_stop(struct Camera* c)
{
    LEGAL_ALIVE("camera.stop");
    VASSERT(g.started,
            "[C11.stop-needs-start] camera.stop without a preceding "
            "successful start");
    g.n_stop++;
    g.started = 0;
    return g.r_stop = nd_status();
}
static enum DeviceStatusCode
cam_trigger(struct Camera* c)
{
    LEGAL_ALIVE("camera.execute_trigger");
    g.n_trigger++;
    return g.r_trigger = nd_status();
}
static enum DeviceStatusCode
cam_get_frame(struct Camera* c, void* im, size_t* nbytes, struct ImageInfo* info)
{
    LEGAL_ALIVE("camera.get_frame");
    VASSERT(g.started,
            "[C11.frame-only-running] camera.get_frame outside the running "
            "state");
    g.n_get_frame++;
    return g.r_get_frame = nd_status();
}

/* --- storage driver stubs: the driver declares its own state */
static enum DeviceState
sto_set(struct Storage* s, const struct StorageProperties* p)
{
    LEGAL_ALIVE("storage.set");
    g.n_set++;
    g.r_set = nd_state();
    g.started = (g.r_set == DeviceState_Running);
    return g.r_set;
}
static void
sto_get(const struct Storage* s, struct StorageProperties* p)
{
    LEGAL_ALIVE("storage.get");
    g.n_get++;
}
static void
sto_get_meta(const struct Storage* s, struct StoragePropertyMetadata* m)
{
    LEGAL_ALIVE("storage.get_meta");
    g.n_get_meta++;
}
static enum DeviceState
sto_start(struct Storage* s)
{
    LEGAL_ALIVE("storage.start");
    g.n_start++;
    g.r_start = nd_state();
    g.started = (g.r_start == DeviceState_Running);
    return g.r_start;
}
static enum DeviceState
sto_append(struct Storage* s, const struct VideoFrame* f, size_t* nbytes)
{
    LEGAL_ALIVE("storage.append");
    VASSERT(g.started,
            "[C11.append-only-running] storage.append outside the running "
            "state");
    g.n_append++;
    g.r_append = nd_state();
    g.started = (g.r_append == DeviceState_Running);
    return g.r_append;
}
static enum DeviceState
sto_stop(struct Storage* s)
{
    LEGAL_ALIVE("storage.stop");
    VASSERT(g.started,
            "[C11.stop-needs-start] storage.stop without a preceding "
            "successful start");
    g.n_stop++;
    g.r_stop = nd_state();
    g.started = (g.r_stop == DeviceState_Running);
    return g.r_stop;
}
static void
sto_destroy(struct Storage* s)
{
}
static void
sto_reserve(struct Storage* s, const struct ImageShape* shape)
{
    LEGAL_ALIVE("storage.reserve_image_shape");
    g.n_reserve++;
}

/* --- driver stubs */
static struct Camera*
mk_camera_object(void)
{
    struct Camera* c = malloc(sizeof(*c));
    VASSUME(c);
    memset(c, 0, sizeof(*c));
    c->set = cam_set;
    c->get = cam_get;
    c->get_meta = cam_get_meta;
    c->get_shape = cam_get_shape;
    c->start = cam_start;
    c->stop = cam_stop;
    c->execute_trigger = cam_trigger;
    c->get_frame = cam_get_frame;
    return c;
}

static struct Storage*
mk_storage_object(void)
{
    struct Storage* s = malloc(sizeof(*s));
    VASSUME(s);
    memset(s, 0, sizeof(*s));
    s->set = sto_set;
    s->get = sto_get;
    s->get_meta = sto_get_meta;
    s->start = sto_start;
    s->append = sto_append;
    s->stop = sto_stop;
    s->destroy = sto_destroy;
    s->reserve_image_shape = sto_reserve;
    return s;
}

static enum DeviceStatusCode
drv_open(struct Driver* d, uint64_t device_id, struct Device** out)
{
    VASSERT(!g.alive, "[C11.one-close-per-open] second open while a device "
                      "of this harness is still open");
    if (g.open_fails)
        return Device_Err; /* nothing was opened */
    g.n_open++;
    g.alive = 1;
    g.started = 0;
    if (g.kind == DeviceKind_Camera) {
        struct Camera* c = mk_camera_object();
        c->state = DeviceState_AwaitingConfiguration;
        if (g.incomplete)
            c->get_frame = 0;
        g.dev = c;
        *out = &c->device;
    } else {
        struct Storage* s = mk_storage_object();
        s->state = DeviceState_AwaitingConfiguration;
        if (g.incomplete)
            s->reserve_image_shape = 0;
        g.dev = s;
        *out = &s->device;
    }
    return Device_Ok;
}

static enum DeviceStatusCode
drv_describe(const struct Driver* d, struct DeviceIdentifier* id, uint64_t i)
{
    g.n_describe++;
    if (g.describe_fails)
        return Device_Err;
    id->kind = (enum DeviceKind)g.kind;
    id->device_id = (uint8_t)i;
    id->name[0] = 0;
    return Device_Ok;
}

static enum DeviceStatusCode
drv_close(struct Driver* d, struct Device* dev)
{
    VASSERT(g.alive, "[C11.one-close-per-open] driver.close on a device that "
                     "is not open");
    VASSERT((void*)dev == g.dev, "[C11.one-close-per-open] driver.close on a "
                                 "foreign pointer");
    g.n_close++;
    g.alive = 0;
    g.started = 0;
    free(g.dev); /* any later access is a CBMC/ASan failure */
    return nd_status();
}

static void
ghost_reset(void)
{
    memset(&g, 0, sizeof(g));
    g.r_set = g.r_get = g.r_get_meta = g.r_get_shape = g.r_start = g.r_stop =
      g.r_trigger = g.r_get_frame = g.r_append = -1;
    g_driver.open = drv_open;
    g_driver.describe = drv_describe;
    g_driver.close = drv_close;
    g_dm_returns_null = 0;
}

/* AGREE: the HAL state field and the ghost protocol state agree. */
#define CAM_AGREE(c)                                                           \
    (g.alive && (void*)(c) == g.dev &&                                         \
     IFF((c)->state == DeviceState_Running, g.started))
#define STO_AGREE(s)                                                           \
    (g.alive && (void*)(s) == g.dev &&                                         \
     IFF((s)->state == DeviceState_Running, g.started))

/* An open camera in an arbitrary protocol state satisfying AGREE. */
static struct Camera*
arb_camera(void)
{
    ghost_reset();
    g.kind = DeviceKind_Camera;
    struct Camera* c = mk_camera_object();
    c->device.driver = &g_driver;
    c->state = nd_state();
    g.alive = 1;
    g.n_open = 1;
    g.dev = c;
    g.started = (c->state == DeviceState_Running);
    g.state0 = c->state;
    g.started0 = g.started;
    return c;
}

static struct Storage*
arb_storage(void)
{
    ghost_reset();
    g.kind = DeviceKind_Storage;
    struct Storage* s = mk_storage_object();
    s->device.driver = &g_driver;
    s->state = nd_state();
    g.alive = 1;
    g.n_open = 1;
    g.dev = s;
    g.started = (s->state == DeviceState_Running);
    g.state0 = s->state;
    g.started0 = g.started;
    return s;
}

/* ================================================================== contracts
 * Conventions: `g` holds call counters that start at 0 in every harness, so
 * "exactly one driver stop" reads g.n_stop == 1.  g.state0 is the HAL state
 * before the call. */

#define WAS_RUNNING (g.state0 == DeviceState_Running)

/* ---------------------------------------------------------------- driver.c */
#define CONTRACT_driver_open_device(REQ, ENS, ASG, FRE)                                       \
    REQ(out != 0 && *out == 0 && !g.alive && g.n_open == 0 && g.n_close == 0)                 \
    REQ(driver == 0 || driver == &g_driver)                                                   \
    ENS("[C11.one-close-per-open] a failed driver_open_device leaves no device open",        \
        IMPL(RET != Device_Ok, g.n_open == g.n_close && !g.alive))                            \
    ENS("[C11.one-close-per-open] a successful open leaves exactly one device open",         \
        IMPL(RET == Device_Ok, g.n_open == 1 && g.n_close == 0 && g.alive))                   \
    ENS("[C12.open-yields-described] the opened device carries the identifier described "    \
        "for device_id and its driver",                                                       \
        IMPL(RET == Device_Ok,                                                                \
             *out != 0 && (void*)*out == g.dev && (*out)->driver == driver &&                 \
               (*out)->identifier.kind == (enum DeviceKind)g.kind &&                          \
               (*out)->identifier.device_id == device_id))                                    \
    ENS("[C12.null-driver-is-error] NULL driver gives Device_Err without any driver call",   \
        IMPL(driver == 0, RET == Device_Err && g.n_open == 0))                                \
    ENS("[C11.state-follows-driver] failing driver.open gives Device_Err",                   \
        IMPL(g.open_fails, RET == Device_Err))                                                \
    ASG(g, *out)

#define CONTRACT_driver_close_device(REQ, ENS, ASG, FRE)                                      \
    REQ(device != 0 && g.alive && (void*)device == g.dev && device->driver == &g_driver)      \
    REQ(g.n_close == 0)                                                                       \
    ENS("[C11.one-close-per-open] exactly one driver.close", g.n_close == 1 && !g.alive)     \
    ENS("[C11.nothing-after-close] no other driver call", DRIVER_CALLS_BUT_CLOSE == 0)        \
    ASG(g)                                                                                    \
    FRE(device)

/* ---------------------------------------------------------------- camera.c */
#define CONTRACT_camera_open(REQ, ENS, ASG, FRE)                                              \
    REQ(!g.alive && g.n_open == 0 && g.n_close == 0 && g.kind == DeviceKind_Camera)           \
    ENS("[C11.one-close-per-open,C08.no-leak] camera_open returning NULL leaves no "         \
        "device open",                                                                        \
        IMPL(RET == 0, g.n_open == g.n_close && !g.alive))                                    \
    ENS("[C11.one-close-per-open] camera_open returning a camera leaves exactly that "       \
        "device open",                                                                        \
        IMPL(RET != 0, (void*)RET == g.dev && g.alive && g.n_open == 1 && g.n_close == 0))    \
    ENS("[C11.agree] the returned camera is not Running and the driver is not started",      \
        IMPL(RET != 0, CAM_AGREE(RET) && RET->state != DeviceState_Running))                  \
    ENS("[C12.bad-input-is-error] NULL identifier or wrong kind gives NULL without any "     \
        "driver call",                                                                        \
        IMPL(identifier == 0 || identifier->kind != DeviceKind_Camera,                        \
             RET == 0 && g.n_open == 0))                                                      \
    ENS("[C11.nothing-after-close] no device call other than close happens in open",         \
        DRIVER_CALLS_BUT_CLOSE == 0)                                                          \
    ASG(g)

#define CONTRACT_camera_close(REQ, ENS, ASG, FRE)                                             \
    REQ(self == 0 || (CAM_AGREE(self) && self->device.driver == &g_driver))                   \
    REQ(g.n_close == 0 && DRIVER_CALLS_BUT_CLOSE == 0)                                        \
    ENS("[C11.one-close-per-open] camera_close closes the device exactly once",              \
        IMPL(self != 0, g.n_close == 1 && !g.alive))                                          \
    ENS("[C11.null-is-noop] camera_close(NULL) makes no driver call",                        \
        IMPL(self == 0, DEVICE_CALLS == 0))                                                   \
    ASG(g)                                                                                    \
    FRE(self)

#define CAM_PRE(REQ, self)                                                                        \
    REQ(self == 0 || (CAM_AGREE(self) && self->device.driver == &g_driver))                   \
    REQ(DEVICE_CALLS == 0 && g.state0 == (self ? (int)self->state : 0) &&                     \
        g.started0 == g.started)

#define CAM_POST_COMMON(ENS, self)                                                                \
    ENS("[C11.agree] HAL state and driver protocol state agree afterwards",                  \
        IMPL(self != 0, CAM_AGREE(self)))                                                     \
    ENS("[C11.one-close-per-open] the device is not closed by this call", g.n_close == 0)

#define CONTRACT_camera_set(REQ, ENS, ASG, FRE)                                               \
    CAM_PRE(REQ, self)                                                                            \
    CAM_POST_COMMON(ENS, self)                                                                    \
    ENS("[C11.null-is-error] NULL argument gives Device_Err with no driver call",            \
        IMPL(self == 0 || settings == 0, RET == Device_Err && DEVICE_CALLS == 0))             \
    ENS("[C11.state-follows-driver] result is the driver's set status; one set call",        \
        IMPL(self != 0 && settings != 0, g.n_set == 1 && (int)RET == g.r_set))      \
    ENS("[C11.state-follows-driver] Ok keeps Running, otherwise Armed",                      \
        IMPL(self != 0 && settings != 0 && RET == Device_Ok,                                  \
             self->state == (WAS_RUNNING ? DeviceState_Running : DeviceState_Armed) &&        \
               g.n_stop == 0))                                                                \
    ENS("[C11.state-follows-driver] Err stops a running camera once and awaits config",      \
        IMPL(self != 0 && settings != 0 && RET == Device_Err,                                 \
             self->state == DeviceState_AwaitingConfiguration &&                              \
               g.n_stop == (WAS_RUNNING ? 1 : 0) && !g.started))                              \
    ENS("[C17.binning-at-least-1] binning handed to the driver is at least 1",               \
        IMPL(self != 0 && settings != 0, settings->binning >= 1))                             \
    ASG(g; self != 0: self->state; settings != 0: settings->binning)

/* ================================================================== real code */
#ifndef VERIF_NATIVE
enum DeviceStatusCode
driver_open_device(struct Driver* driver, uint8_t device_id, struct Device** out)
  DFCC_CONTRACT(driver_open_device);
enum DeviceStatusCode
driver_close_device(struct Device* device) DFCC_CONTRACT(driver_close_device);
struct Camera*
camera_open(const struct DeviceManager* system,
            const struct DeviceIdentifier* identifier) DFCC_CONTRACT(camera_open);
void
camera_close(struct Camera* self) DFCC_CONTRACT(camera_close);
enum DeviceStatusCode
camera_set(struct Camera* self, struct CameraProperties* settings)
  DFCC_CONTRACT(camera_set);
#endif

#include "device/hal/driver.c"
#undef LOG
#undef LOGE
#undef EXPECT
#undef CHECK
#undef CHECK_NOJUMP
#include "device/hal/camera.c"
#undef LOG
#undef LOGE
#undef EXPECT
#undef CHECK
#undef CHECK_NOJUMP
#undef containerof
#undef countof
#include "device/hal/storage.c"

/* ================================================================== harnesses */
static struct DeviceManager g_dm;

void
h_driver_open_device(void)
{
    ghost_reset();
    g.kind = nd_bool() ? DeviceKind_Camera : DeviceKind_Storage;
    g.open_fails = nd_bool();
    g.describe_fails = nd_bool();
    struct Driver* driver = nd_bool() ? &g_driver : 0;
    uint8_t device_id = nd_uchar();
    struct Device* dev = 0;
    struct Device** out = &dev;
    enum DeviceStatusCode ret;
    H_CALL(driver_open_device, ret = driver_open_device(driver, device_id, out));
    H_END;
}

void
h_driver_close_device(void)
{
    struct Device* device;
    if (nd_bool())
        device = &arb_camera()->device;
    else
        device = &arb_storage()->device;
    enum DeviceStatusCode ret;
    H_CALL(driver_close_device, ret = driver_close_device(device));
    H_END;
}

void
h_camera_open(void)
{
    ghost_reset();
    g.kind = DeviceKind_Camera;
    g.open_fails = nd_bool();
    g.describe_fails = nd_bool();
    g.incomplete = nd_bool();
    g_dm_returns_null = nd_bool();
    struct DeviceIdentifier idv;
    idv.kind = (enum DeviceKind)nd_uchar();
    idv.device_id = nd_uchar();
    idv.driver_id = nd_uchar();
    const struct DeviceIdentifier* identifier = nd_bool() ? &idv : 0;
    const struct DeviceManager* system = &g_dm;
    struct Camera* ret;
    H_CALL(camera_open, ret = camera_open(system, identifier));
    H_END;
}

void
h_camera_close(void)
{
    struct Camera* self = arb_camera();
    if (nd_bool()) {
        free(self);
        ghost_reset();
        self = 0;
    }
    H_CALL(camera_close, camera_close(self));
    H_END;
}

void
h_camera_set(void)
{
    struct Camera* self = arb_camera();
    struct CameraProperties props;
    props.binning = nd_uchar();
    struct CameraProperties* settings = nd_bool() ? &props : 0;
    if (nd_bool()) {
        free(self);
        ghost_reset();
        self = 0;
    }
    enum DeviceStatusCode ret;
    H_CALL(camera_set, ret = camera_set(self, settings));
    VCOVER(self && settings && ret == Device_Err && WAS_RUNNING,
           "set fails on a running camera");
    VCOVER(self && settings && ret == Device_Ok && WAS_RUNNING,
           "set succeeds on a running camera");
    H_END;
}
