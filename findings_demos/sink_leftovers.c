/* Demonstration for the defect fixed by "fix: a new acquisition does not store frames an
 * earlier one left unread" (C09/C07): real channel.c, sink.c, vfslice.c, throttler.c,
 * platform.c; only the storage HAL is a stub that fails its 2nd append in acquisition 1.
 * Acquisition 1 writes 4 frames; the sink stops on the storage error with frames unread.
 * Acquisition 2 writes 3 frames (ids 0..2). Expected: storage of acquisition 2 receives
 * exactly ids 0,1,2. Build/run: see run.sh */
#include "runtime/sink.h"
#include "runtime/channel.h"
#include "device/props/components.h"
#include <stdio.h>
#include <stdlib.h>
#include <string.h>
#include <unistd.h>

static int g_run, g_appends, g_state = DeviceState_Armed;
static unsigned long g_ids[64];
static int g_run_of[64], g_n;
#include "device/kit/storage.h"
static struct Storage g_sto;
enum DeviceState storage_get_state(const struct Storage* const s) { return s ? g_state : DeviceState_Closed; }
enum DeviceStatusCode storage_start(struct Storage* s) { g_state = DeviceState_Running; return Device_Ok; }
enum DeviceStatusCode storage_stop(struct Storage* s) { if (g_state == DeviceState_Running) g_state = DeviceState_Armed; return Device_Ok; }
enum DeviceStatusCode storage_append(struct Storage* s, const struct VideoFrame* beg, const struct VideoFrame* end)
{
    if (g_state != DeviceState_Running) return Device_Err;
    if (beg >= end) return Device_Ok;
    if (g_run == 1 && ++g_appends == 2) { g_state = DeviceState_Armed; return Device_Err; } /* disk full */
    for (const uint8_t* p = (const uint8_t*)beg; p < (const uint8_t*)end; p += ((const struct VideoFrame*)p)->bytes_of_frame) {
        g_ids[g_n] = ((const struct VideoFrame*)p)->frame_id; g_run_of[g_n++] = g_run;
    }
    return Device_Ok;
}
void storage_close(struct Storage* s) {}
struct Storage* storage_open(const struct DeviceManager* m, const struct DeviceIdentifier* i) { return &g_sto; }
enum DeviceStatusCode storage_set(struct Storage* s, const struct StorageProperties* p) { return Device_Ok; }
enum DeviceStatusCode storage_get(const struct Storage* s, struct StorageProperties* p) { return Device_Ok; }
static void stop_source(const struct video_sink_s* s) {}

static void write_frames(struct channel* c, int n)
{
    for (int i = 0; i < n; ++i) {
        struct VideoFrame* f = channel_write_map(c, 128);
        memset(f, 0, 128); f->bytes_of_frame = 128; f->frame_id = i;
        channel_write_unmap(c);
        usleep(30000); /* let the sink see the frames one by one */
    }
}

int main(void)
{
    static struct video_sink_s sink;
    video_sink_init(&sink, 0, 4096, stop_source);
    sink.storage = &g_sto;
    /* acquisition 1: storage fails at its 2nd append */
    g_run = 1; video_sink_start(&sink); write_frames(&sink.in, 4);
    sink.is_stopping = 1; thread_join(&sink.thread);
    /* acquisition 2: fault free */
    g_run = 2; g_state = DeviceState_Armed; video_sink_start(&sink); write_frames(&sink.in, 3);
    sink.is_stopping = 1; thread_join(&sink.thread);
    int bad = 0, k = 0; unsigned long want = 0;
    for (int i = 0; i < g_n; ++i) if (g_run_of[i] == 2) { printf("acquisition 2 stored frame id %lu\n", g_ids[i]); if (g_ids[i] != want++) bad = 1; ++k; }
    if (k != 3) bad = 1;
    printf(bad ? "FAIL: acquisition 2 did not store exactly ids 0,1,2\n" : "PASS: acquisition 2 stored exactly ids 0,1,2\n");
    return bad;
}
