/* contracts and harnesses for the simulated camera */
#define MAXW 8192u
#define IS_POW2(b) ((b) == 1 || (b) == 2 || (b) == 4 || (b) == 8 || (b) == 16 || (b) == 32 || (b) == 64 || (b) == 128)
#define CLAMPU(v, lo, hi) ((v) < (lo) ? (lo) : ((v) > (hi) ? (hi) : (v)))
#define BPP(t) (((unsigned)(t) == SampleType_u8 || (unsigned)(t) == SampleType_i8) ? 1u : (unsigned)(t) == SampleType_f32 ? 4u : (unsigned)(t) < SampleTypeCount ? 2u : 0u)
#define ALIGN32(n) ((((n) + 31) >> 5) << 5)
/* Bytes the streamer renders for the current configuration: the extent is DEFINED by the
 * streamer's own shape computation (compute_full_resolution_shape_and_offset followed by
 * aligned_bytes_of_image); the safety obligations proper are at the render stubs, which
 * compare the capacity of the buffer they are handed with the shape they are handed.
 * Using the same functions keeps the two sides the same expression tree (a comparison of
 * two different 64-bit multiplier trees does not terminate in CBMC, DESIGN sec. 2). */
static size_t
spec_full_bytes(const struct SimulatedCamera* c)
{
    struct ImageShape full = { 0 };
    uint32_t origin[2];
    compute_full_resolution_shape_and_offset(c, &full, origin);
    return aligned_bytes_of_image(&full);
}
#define FULL_BYTES(c) spec_full_bytes(c)
/* CAP: both buffers can hold a full-resolution frame */
#define CAP(c) (cap_of((c)->im.frame_data) >= FULL_BYTES(c) && cap_of((c)->im.render_data) >= FULL_BYTES(c))

/* configuration consistency established by set and relied upon by everybody else */
#define CFG_OK(c)                                                                             \
    (IS_POW2((c)->properties.binning) && (c)->im.shape.dims.channels == 1 &&                  \
     (c)->im.shape.dims.planes == 1 && (c)->im.shape.dims.width >= 1 &&                       \
     (c)->im.shape.dims.width * (uint32_t)(c)->properties.binning <= MAXW &&                  \
     (c)->im.shape.dims.height >= 1 &&                                                        \
     (c)->im.shape.dims.height * (uint32_t)(c)->properties.binning <= MAXW &&                 \
     (c)->im.shape.strides.channels == 1 && (c)->im.shape.strides.width == 1 &&               \
     (c)->im.shape.strides.height == (int64_t)(c)->im.shape.dims.width &&                     \
     /* planes = row stride x rows (with the row stride equal to the width, above) */       \
     (c)->im.shape.strides.planes ==                                                          \
       (c)->im.shape.strides.height * (int64_t)(c)->im.shape.dims.height &&                   \
     (c)->properties.shape.x == (c)->im.shape.dims.width &&                                   \
     (c)->properties.shape.y == (c)->im.shape.dims.height &&                                  \
     (c)->im.shape.type == (c)->properties.pixel_type)

#ifdef SET_BINNING
#define SET_WMAX (MAXW / (SET_BINNING ? SET_BINNING : 1)) /* literal */
#else
#define SET_WMAX (MAXW / g_bin_eff)
#endif
static struct CameraProperties g_set0; /* the settings as passed in */
static uint8_t g_bin_eff;
#define CONTRACT_simcam_set(REQ, ENS, ASG, FRE)                                               \
    REQ(camera == &g_cam->camera && settings != 0 && !cg.held)                                \
    ENS("[C17.bad-binning-rejected] a binning that is not a power of two is rejected and "   \
        "nothing changes",                                                                    \
        IMPL(!IS_POW2(g_bin_eff), RET == Device_Err && cg.acquires == 0))                     \
    ENS("[C17.clamped-shape-reported] accepted: the shape in effect is the requested one "   \
        "clamped to [1, 8192/binning] per axis, one channel, one plane, dense strides",       \
        IMPL(RET == Device_Ok,                                                                \
             CFG_OK(g_cam) && g_cam->properties.binning == g_bin_eff &&                       \
               g_cam->im.shape.dims.width == CLAMPU(g_set0.shape.x, 1u, SET_WMAX) &&          \
               g_cam->im.shape.dims.height == CLAMPU(g_set0.shape.y, 1u, SET_WMAX)))          \
    ENS("[C17.readback-is-in-effect] the properties read back are the ones passed in, with " \
        "the shape in effect and the frame trigger normalised to the software line",          \
        IMPL(RET == Device_Ok,                                                                \
             g_cam->properties.exposure_time_us == g_set0.exposure_time_us &&                 \
               g_cam->properties.pixel_type == g_set0.pixel_type &&                           \
               g_cam->properties.offset.x == g_set0.offset.x &&                               \
               g_cam->properties.offset.y == g_set0.offset.y &&                               \
               g_cam->properties.input_triggers.frame_start.enable ==                         \
                 g_set0.input_triggers.frame_start.enable &&                                  \
               g_cam->properties.input_triggers.frame_start.line == 0))                       \
    ENS("[C17.buffers-hold-full-resolution] accepted: both image buffers can hold a frame "  \
        "at full (un-binned) resolution, which is what the streamer renders",                 \
        IMPL(RET == Device_Ok, CAP(g_cam)))                                                   \
    ENS("[C18.lock-discipline] the lock is released on every path",                          \
        !cg.held && cg.acquires == cg.releases)                                               \
    ASG()

static size_t g_nbytes0;
static int64_t g_last0, g_frame0;
static int g_running0;
static uint8_t g_dst_guard;
static uint8_t* g_dst;        /* the caller's buffer */
static uint8_t g_dst_first0;  /* its first byte before the call */
static uint64_t g_hw0;        /* info_out->hardware_frame_id before the call */
#define CONTRACT_simcam_get_frame(REQ, ENS, ASG, FRE)                                         \
    REQ(camera == &g_cam->camera && !cg.held &&                                               \
        g_cam->im.last_emitted_frame_id <= g_cam->im.frame_id &&                              \
        g_cam->im.last_emitted_frame_id >= -1 && nbytes != 0 && info_out != 0)                \
    ENS("[C17.short-buffer-rejected] a buffer smaller than the image, or a stopped camera, "\
        "gives Device_Err and writes nothing",                                                \
        IMPL(g_nbytes0 < (size_t)g_cam->im.shape.strides.planes * BPP(g_cam->im.shape.type) || !g_running0, \
             RET == Device_Err && cg.acquires == 0))                                          \
    ENS("[C18.fresh-and-increasing] a delivered frame is new: its hardware id is greater "   \
        "than the id delivered before and becomes the last delivered id",                     \
        IMPL(RET == Device_Ok && g_cam->streamer.is_running,                                  \
             (int64_t)info_out->hardware_frame_id == g_cam->im.frame_id &&                    \
               g_cam->im.frame_id > g_last0 &&                                                \
               g_cam->im.last_emitted_frame_id == g_cam->im.frame_id))                        \
    ENS("[C18.no-frame-after-stop] a frame call that observes the stop delivers nothing: "   \
        "neither the caller's buffer nor the frame info is written (the frame the streamer "  \
        "renders for stop's own wake-up trigger is not a frame the user asked for)",          \
        IMPL(RET == Device_Ok && !g_cam->streamer.is_running,                                 \
             info_out->hardware_frame_id == g_hw0 && g_dst[0] == g_dst_first0))               \
    ENS("[C17.frame-has-reported-shape] the frame carries the reported shape",               \
        IMPL(RET == Device_Ok && g_cam->streamer.is_running,                                  \
             info_out->shape.dims.width == g_cam->im.shape.dims.width &&                      \
               info_out->shape.dims.height == g_cam->im.shape.dims.height &&                  \
               info_out->shape.type == g_cam->im.shape.type))                                 \
    ENS("[C17.fills-exactly-image-bytes] nothing behind the image bytes of the caller's "    \
        "buffer is written", g_dst_guard == 0xA5)                                             \
    ENS("[C18.lock-discipline] the lock is released on every path",                          \
        !cg.held && cg.acquires == cg.releases)                                               \
    ASG()

#define D_OK(d) ((d) == D_CLEAN || (d) == D_NOTIFIED)
#define CONTRACT_simcam_start(REQ, ENS, ASG, FRE)                                             \
    REQ(camera == &g_cam->camera && !cg.held)                                                 \
    ENS("[C18.count-restarts] every start resets the frame counters and spawns one streamer",\
        g_cam->im.frame_id == -1 && g_cam->im.last_emitted_frame_id == -1 &&                  \
          g_cam->streamer.is_running == 1 && cg.n_create == 1)                                \
    ASG()

#define CONTRACT_simcam_execute_trigger(REQ, ENS, ASG, FRE)                                   \
    REQ(camera == &g_cam->camera && !cg.held && cg.d_trigger == D_CLEAN)                      \
    ENS("[C18.trigger-published-and-notified] the trigger is set under the lock and the "    \
        "streamer is notified", RET == Device_Ok && g_cam->software_trigger.triggered == 1 && \
                                  D_OK(cg.d_trigger) && cg.notifies_trigger >= 1 && !cg.held) \
    ASG()

#define CONTRACT_simcam_stop(REQ, ENS, ASG, FRE)                                              \
    REQ(camera == &g_cam->camera && !cg.held && cg.d_trigger == D_CLEAN && cg.d_frame == D_CLEAN) \
    ENS("[C18.stop-unblocks-frame-call] clearing is_running is published by a lock passage " \
        "and then notified on frame_ready: a frame call about to sleep cannot miss it",       \
        g_cam->streamer.is_running == 0 && D_OK(cg.d_frame) && cg.notifies_frame >= 1)        \
    ENS("[C18.stop-unblocks-streamer] the streamer waiting for a trigger is woken",          \
        D_OK(cg.d_trigger) && cg.notifies_trigger >= 1)                                       \
    ENS("[C18.stop-joins-once] stop joins the streamer exactly once", cg.n_join == 1 && !cg.held) \
    ASG()

/* ================================================================== harnesses */
static struct Camera*
arb_simcam(void)
{
    memset(&cg, 0, sizeof(cg));
    struct Camera* c = simcam_make_camera((enum BasicDeviceKind)(nd_uchar() % 3));
    VASSUME(c != 0);
    g_cam = containerof(c, struct SimulatedCamera, camera);
    g_lock = &g_cam->im.lock;
    g_cv_frame = &g_cam->im.frame_ready;
    g_cv_trigger = &g_cam->software_trigger.trigger_ready;
    g_cam->streamer.is_running = nd_bool();
    g_cam->im.frame_id = nd_long();
    g_cam->im.last_emitted_frame_id = nd_long();
    g_cam->im.frame_wanted = nd_uchar();
    g_cam->software_trigger.triggered = nd_bool();
    g_cam->properties.input_triggers.frame_start.enable = nd_bool();
    g_cam->hardware_timestamp = nd_ulong();
    cam_inputs_now(&g_last_in);
    return c;
}

/* an arbitrary configuration as simcam_set leaves it, with buffers satisfying CAP */
static void
arb_config(void)
{
#ifdef CFG_BINNING
    g_cam->properties.binning = CFG_BINNING; /* literal (case split) */
#else
    g_cam->properties.binning = nd_uchar();
#endif
    g_cam->properties.pixel_type = (enum SampleType)(nd_uchar() % SampleTypeCount);
    g_cam->im.shape.type = g_cam->properties.pixel_type;
    g_cam->im.shape.dims.width = nd_uint();
    g_cam->im.shape.dims.height = nd_uint();
    g_cam->im.shape.dims.channels = 1;
    g_cam->im.shape.dims.planes = 1;
    VASSUME(IS_POW2(g_cam->properties.binning));
    VASSUME(g_cam->im.shape.dims.width >= 1 && g_cam->im.shape.dims.width <= MAXW &&
            g_cam->im.shape.dims.width * (uint32_t)g_cam->properties.binning <= MAXW);
    VASSUME(g_cam->im.shape.dims.height >= 1 && g_cam->im.shape.dims.height <= MAXW &&
            g_cam->im.shape.dims.height * (uint32_t)g_cam->properties.binning <= MAXW);
#ifdef CFG_AXMAX
    /* bounded stand-in in the image axes (the full range did not finish) */
    VASSUME(g_cam->im.shape.dims.width <= CFG_AXMAX && g_cam->im.shape.dims.height <= CFG_AXMAX);
#endif
    g_cam->im.shape.strides.channels = 1;
    g_cam->im.shape.strides.width = 1;
    g_cam->im.shape.strides.height = g_cam->im.shape.dims.width;
    g_cam->im.shape.strides.planes = g_cam->im.shape.strides.height * (int64_t)g_cam->im.shape.dims.height;
    g_cam->properties.shape.x = g_cam->im.shape.dims.width;
    g_cam->properties.shape.y = g_cam->im.shape.dims.height;
    g_capA = nd_ulong();
    g_capB = nd_ulong();
    VASSUME(g_capA <= ((size_t)1 << 30) && g_capB <= ((size_t)1 << 30));
    g_bufA = malloc(g_capA);
    g_bufB = malloc(g_capB);
    VASSUME(g_bufA != 0 && g_bufB != 0);
    g_cam->im.frame_data = g_bufA;
    g_cam->im.render_data = g_bufB;
    g_full_bytes = spec_full_bytes(g_cam);
}

void
h_simcam_set(void)
{
    struct Camera* camera = arb_simcam();
    /* previous buffers of any size, or none yet */
    if (nd_bool()) {
        size_t c1 = nd_ulong(), c2 = nd_ulong();
        VASSUME(c1 <= ((size_t)1 << 30) && c2 <= ((size_t)1 << 30));
        g_cam->im.frame_data = malloc(c1);
        g_cam->im.render_data = malloc(c2);
        VASSUME(g_cam->im.frame_data != 0 && g_cam->im.render_data != 0);
    }
    struct CameraProperties st;
    memset(&st, 0, sizeof(st));
    st.exposure_time_us = nd_float();
    VASSUME(st.exposure_time_us == st.exposure_time_us);
#ifdef SET_BINNING
    st.binning = SET_BINNING; /* literal: the clamp bound 8192.0f/binning then constant-folds */
#else
    st.binning = nd_uchar();
#endif
    st.pixel_type = (enum SampleType)(nd_uchar() % SampleTypeCount);
    st.shape.x = nd_uint();
    st.shape.y = nd_uint();
#ifdef SET_AXMAX
    VASSUME(st.shape.x <= SET_AXMAX && st.shape.y <= SET_AXMAX);
#endif
    st.offset.x = nd_uint();
    st.offset.y = nd_uint();
    st.input_triggers.frame_start.enable = nd_bool();
    st.input_triggers.frame_start.line = nd_uchar();
    g_set0 = st;
    g_bin_eff = st.binning ? st.binning : 1;
    struct CameraProperties* settings = &st;
    enum DeviceStatusCode ret;
    H_CALL(simcam_set, ret = simcam_set(camera, settings));
#ifdef SET_BINNING
#if (SET_BINNING & (SET_BINNING - 1)) == 0
    VCOVER(ret == Device_Ok && g_set0.shape.x > 8192 / (SET_BINNING ? SET_BINNING : 1), "a wide request is clamped");
    VCOVER(ret == Device_Ok && g_set0.shape.x == 0, "zero width clamps to 1");
    VCOVER(ret == Device_Err, "allocation failure");
#else
    VCOVER(ret == Device_Err, "binning that is not a power of two rejected");
#endif
#else
    VCOVER(ret == Device_Ok && g_bin_eff == 8 && g_set0.shape.x > 5000, "binning 8 clamps a wide request");
    VCOVER(ret == Device_Err && !IS_POW2(g_bin_eff), "binning 3 rejected");
#endif
    H_END;
}

#ifndef GF_PIXELS
#define GF_PIXELS 5
#endif
#ifndef GF_TYPE
#define GF_TYPE SampleType_u8
#endif
/* get_frame only looks at bytes_of_image(im.shape) = planes * bytes per sample and copies
 * that many bytes out of frame_data: an arbitrary plane count, no products */
static void
arb_config_light(void)
{
    /* literal image size and sample type per unit: CBMC's memcpy with a symbolic length
     * between heap objects does not get through array post-processing */
    g_cam->properties.pixel_type = GF_TYPE;
    g_cam->im.shape.type = GF_TYPE;
    g_cam->im.shape.dims.width = nd_uint();
    g_cam->im.shape.dims.height = nd_uint();
    g_cam->im.shape.strides.planes = GF_PIXELS;
    g_capA = 64; /* what simcam_set would allocate at least: rounded up to 32 bytes */
    g_capB = 64;
    g_bufA = malloc(64);
    g_bufB = malloc(64);
    VASSUME(g_bufA != 0 && g_bufB != 0);
    g_cam->im.frame_data = g_bufA;
    g_cam->im.render_data = g_bufB;
}

void
h_simcam_get_frame(void)
{
    struct Camera* camera = arb_simcam();
    arb_config_light();
    VASSUME(g_cam->im.last_emitted_frame_id <= g_cam->im.frame_id && g_cam->im.last_emitted_frame_id >= -1 &&
            g_cam->im.frame_id < ((int64_t)1 << 62));
    size_t img = (size_t)g_cam->im.shape.strides.planes * BPP(g_cam->im.shape.type);
    uint8_t* dst = malloc(img + 1);
    VASSUME(dst != 0);
    dst[img] = 0xA5; /* guard right behind the image bytes */
    dst[0] = nd_uchar();
    g_dst = dst;
    g_dst_first0 = dst[0];
    size_t nb = nd_ulong();
    size_t* nbytes = &nb;
    void* im = dst;
    struct ImageInfo info;
    struct ImageInfo* info_out = &info;
    info.hardware_frame_id = nd_ulong();
    g_hw0 = info.hardware_frame_id;
    g_nbytes0 = nb;
    g_last0 = g_cam->im.last_emitted_frame_id;
    g_frame0 = g_cam->im.frame_id;
    g_running0 = g_cam->streamer.is_running;
    g_dst_guard = 0xA5;
    enum DeviceStatusCode ret;
    H_CALL(simcam_get_frame, ret = simcam_get_frame(camera, im, nbytes, info_out));
    VASSERT(dst[img] == 0xA5, "[C17.fills-exactly-image-bytes] the byte right behind the image bytes of the caller's buffer is untouched");
    VCOVER(ret == Device_Ok && g_cam->streamer.is_running && cg.waits_frame >= 1, "frame delivered after waiting");
    VCOVER(ret == Device_Ok && !g_cam->streamer.is_running, "stopped while waiting");
    VCOVER(ret == Device_Err && g_running0, "buffer too small");
    H_END;
}

void
h_simcam_start(void)
{
    struct Camera* camera = arb_simcam();
    enum DeviceStatusCode ret;
    H_CALL(simcam_start, ret = simcam_start(camera));
    VCOVER(ret == Device_Ok, "started");
    H_END;
}

void
h_simcam_execute_trigger(void)
{
    struct Camera* camera = arb_simcam();
    enum DeviceStatusCode ret;
    H_CALL(simcam_execute_trigger, ret = simcam_execute_trigger(camera));
    H_END;
}

void
h_simcam_stop(void)
{
    struct Camera* camera = arb_simcam();
    enum DeviceStatusCode ret;
    H_CALL(simcam_stop, ret = simcam_stop(camera));
    VCOVER(g_last_in.is_running == 0, "stopped");
    H_END;
}

/* ---- streamer thread: stubs for the rendering calls (goto-instrument --replace-calls) */
void
stub_im_fill_rand(const struct ImageShape* const shape, uint8_t* buf)
{
    /* contract proved for the real function in simcam.im_fill_rand: writes exactly
     * aligned_bytes_of_image(shape) bytes */
    VASSERT(buf == g_cam->im.render_data, "[C17.render-within-buffer] frames are rendered into the render buffer");
    VASSERT(cap_of(buf) >= aligned_bytes_of_image(shape), "[C17.render-within-buffer] the random image (rounded up to 32 bytes) fits the render buffer");
}
void
stub_bin2(uint8_t* im_, int w, int h)
{
    VASSERT((void*)im_ == g_cam->im.render_data, "[C17.render-within-buffer] binning works in the render buffer");
    VASSERT(w >= 0 && h >= 0 && w <= 8192 && h <= 8192, "[C17.render-within-buffer] binning extents are image extents");
#ifdef CHECK_BIN2_EXTENT
    VASSERT((size_t)w * (size_t)h <= cap_of(im_), "[C17.render-within-buffer] bin2 stays inside the render buffer");
#endif
    if (cg.n_bin2 < 8)
        cg.n_bin2++;
}

static uint8_t g_enable0;
#define CONTRACT_simulated_camera_streamer_thread(REQ, ENS, ASG, FRE)                         \
    REQ(self == g_cam && CFG_OK(g_cam) && CAP(g_cam) && !cg.held)                             \
    ENS("[C18.hardware-id-counts-every-frame] the published id counts every generated "      \
        "frame and only grows", cg.published_bad == 0)                                        \
    ENS("[C18.never-more-frames-than-triggers] with the frame trigger enabled no frame is "  \
        "generated before a trigger and never more frames than triggers",                     \
        IMPL(g_enable0, cg.iterations <= cg.triggers_fired) && cg.published <= cg.iterations) \
    ENS("[C18.lock-discipline] the lock is never left held", !cg.held && cg.acquires == cg.releases) \
    ENS("[C17.buffers-stay-valid] the two buffers are still the two allocated buffers",      \
        (g_cam->im.frame_data == g_bufA && g_cam->im.render_data == g_bufB) ||                \
          (g_cam->im.frame_data == g_bufB && g_cam->im.render_data == g_bufA))                \
    ASG()

void
h_simcam_streamer(void)
{
    arb_simcam();
    arb_config();
    VASSUME(CAP(g_cam));
    VASSUME(g_cam->im.frame_id >= -1 && g_cam->im.frame_id < ((int64_t)1 << 60));
    g_cam->streamer.is_running = 1;
    g_streamer_frame0 = g_cam->im.frame_id;
    g_enable0 = g_cam->properties.input_triggers.frame_start.enable;
    cg.triggers_fired = g_cam->software_trigger.triggered ? 1 : 0;
    cg.last_published_id = g_cam->im.frame_id;
    cg.streamer_unit = 1;
    struct SimulatedCamera* self = g_cam;
    H_CALL(simulated_camera_streamer_thread, simulated_camera_streamer_thread(self));
    VCOVER(cg.published >= 2, "two frames published");
    VCOVER(g_enable0 && cg.iterations >= 2, "two triggered frames");
#ifdef CFG_BINNING
#if CFG_BINNING == 8
    VCOVER(cg.n_bin2 >= 3, "binning 8 halves three times per frame");
#endif
#else
    VCOVER(g_cam->properties.binning == 8 && cg.n_bin2 == 3, "binning 8 halves three times");
#endif
    VCOVER(cg.iterations == 1 && cg.published == 0, "one frame generated but not wanted");
    H_END;
}

/* ---- im_fill_rand: the real loop under a loop contract */
static uint8_t* g_rand_buf;
static size_t g_rand_n;
void
h_im_fill_rand(void)
{
    memset(&cg, 0, sizeof(cg));
    struct ImageShape sh;
    memset(&sh, 0, sizeof(sh));
    sh.strides.planes = nd_long();
    VASSUME(sh.strides.planes >= 0 && sh.strides.planes <= ((int64_t)1 << 26));
    sh.type = (enum SampleType)(nd_uchar() % SampleTypeCount);
    g_rand_n = aligned_bytes_of_image(&sh);
    size_t cap = nd_ulong();
    VASSUME(cap >= g_rand_n && cap <= ((size_t)1 << 30));
    g_rand_buf = malloc(cap + 1);
    VASSUME(g_rand_buf != 0);
    g_rand_buf[g_rand_n] = 0xA5;
    im_fill_rand(&sh, g_rand_buf);
    VASSERT(g_rand_buf[g_rand_n] == 0xA5, "[C17.render-within-buffer] im_fill_rand writes nothing behind aligned_bytes_of_image(shape)");
    VCOVER(g_rand_n >= 64, "several words");
    H_END;
}
