/* Common definitions for every verification harness.
 *
 * Two build modes share this header:
 *   - CBMC   (goto-cc, -DVERIF_CBMC): VASSERT/VASSUME map to __CPROVER_assert/assume.
 *   - native (gcc,     -DVERIF_NATIVE): VASSERT records a failed tag and prints it;
 *     VASSUME aborts the replay as "pre-state not satisfiable" when false.
 *
 * Tag convention: the description string of every property-carrying assertion starts
 * with "[Cxx.tag(,Cyy.tag)*]"; contract clauses carry the same list in a trailing
 * comment "/ *@Cxx.tag* /" on the clause's line. vlib maps obligations back to tags.
 */
#ifndef VERIF_H
#define VERIF_H

#include <stddef.h>
#include <stdint.h>

#ifdef VERIF_NATIVE
#include <stdio.h>
#include <stdlib.h>
extern int verif_failed;
#define VASSERT(c, tagmsg)                                                     \
    do {                                                                       \
        if (!(c)) {                                                            \
            verif_failed++;                                                    \
            printf("REPLAY-FAILED %s\n", tagmsg);                              \
        }                                                                      \
    } while (0)
/* CBMC-only predicates are vacuous natively (they only constrain symbolic states) */
#define __CPROVER_same_object(a, b) 1
#define __CPROVER_is_fresh(p, n) 1
#define __CPROVER_rw_ok(p, n) 1
#define __CPROVER_r_ok(p, n) 1
#define __CPROVER_w_ok(p, n) 1
#define __CPROVER_OBJECT_SIZE(p) ((size_t)-1)
#define __CPROVER_POINTER_OFFSET(p) ((size_t)0)
#define __CPROVER_DYNAMIC_OBJECT(p) 1
#define VASSUME(c)                                                             \
    do {                                                                       \
        if (!(c)) {                                                            \
            printf("REPLAY-PRESTATE-REJECTED %s\n", #c);                       \
            exit(3);                                                           \
        }                                                                      \
    } while (0)
#else
#define VASSERT(c, tagmsg) __CPROVER_assert((c), tagmsg)
#define VASSUME(c) __CPROVER_assume(c)
int nondet_int(void);
unsigned nondet_uint(void);
unsigned char nondet_uchar(void);
unsigned long nondet_ulong(void);
long nondet_long(void);
_Bool nondet_bool(void);
float nondet_float(void);
#endif

/* Reachability guards.  VCOVER(c, "name") is an assertion that MUST FAIL: it states
 * that the situation `c` is unreachable at this point.  vlib treats a "[COVER]"
 * obligation that is *proved* as a vacuity alarm (exit 2): the precondition or the
 * harness would then exclude the case the contract is supposed to talk about.
 * H_END is the same for "the end of the harness is reachable at all". */
#ifdef VERIF_NATIVE
#define VCOVER(c, name)                                                        \
    do {                                                                       \
        if (c)                                                                 \
            printf("REPLAY-COVERED %s\n", name);                               \
    } while (0)
#else
#define VCOVER(c, name) __CPROVER_assert(!(c), "[COVER] " name)
#endif
#define H_END VCOVER(1, "end of harness reachable")

/* ---- nondeterministic inputs --------------------------------------------------
 * Every symbolic input of a harness is drawn through nd_*().  Under CBMC the value is
 * unconstrained; the JSON trace of a failed obligation shows the assignments to `v`
 * inside these functions in call order, which vlib extracts into a replay script.  In
 * the native build the same calls pop the script, so the real function is re-executed
 * on exactly the counterexample's inputs. */
#ifdef VERIF_NATIVE
unsigned long verif_nd_next(const char* kind);
static inline int nd_int(void) { return (int)verif_nd_next("int"); }
static inline unsigned nd_uint(void) { return (unsigned)verif_nd_next("uint"); }
static inline unsigned char nd_uchar(void) { return (unsigned char)verif_nd_next("uchar"); }
static inline unsigned long nd_ulong(void) { return verif_nd_next("ulong"); }
static inline long nd_long(void) { return (long)verif_nd_next("long"); }
static inline int nd_bool(void) { return verif_nd_next("bool") != 0; }
static inline float nd_float(void)
{
    union { unsigned u; float f; } c;
    c.u = (unsigned)verif_nd_next("float");
    return c.f;
}
#else
static inline int nd_int(void) { int v = nondet_int(); return v; }
static inline unsigned nd_uint(void) { unsigned v = nondet_uint(); return v; }
static inline unsigned char nd_uchar(void) { unsigned char v = nondet_uchar(); return v; }
static inline unsigned long nd_ulong(void) { unsigned long v = nondet_ulong(); return v; }
static inline long nd_long(void) { long v = nondet_long(); return v; }
static inline int nd_bool(void) { int v = nondet_bool(); return v; }
static inline float nd_float(void)
{
    /* drawn as raw bits so that the replay script is exact */
    unsigned v = nondet_uint();
    union { unsigned u; float f; } c;
    c.u = v;
    return c.f;
}
#endif

/* ---- single-source contracts --------------------------------------------------
 * A contract is an X-macro  CONTRACT_<fn>(REQ, ENS, ASG, FRE)  listing
 *   REQ(cond)            precondition
 *   ENS("[tags] text", cond)   postcondition (one per line: the ordinal is the key
 *                        that maps CBMC's <fn>.postcondition.<k> back to the tags)
 *   ASG(targets)         assigns clause, FRE(targets) frees clause
 * Under CBMC it is attached to a prior declaration of the real function and enforced
 * by goto-instrument --dfcc --enforce-contract.  Natively the same list is evaluated
 * around the call (H_CALL) so the replay driver checks the very same clauses.
 * RET names the return value (harness local `ret` natively); old values are explicit
 * ghost copies taken by the harness (CBMC's __CPROVER_old rejects calls). */
#define IMPL(a, b) (!(a) || (b))
#define IFF(a, b) ((!!(a)) == (!!(b)))
#define X_SKIP1(a)
#define X_SKIP2(a, b)
#define X_SKIPV(...)
#ifdef VERIF_NATIVE
#define RET ret
#define X_NREQ(c) VASSUME(c);
#define X_NENS(t, c) VASSERT(c, t);
#define H_CALL(fn, stmt)                                  \
    do {                                                  \
        CONTRACT_##fn(X_NREQ, X_SKIP2, X_SKIPV, X_SKIPV)  \
        stmt;                                             \
        CONTRACT_##fn(X_SKIP1, X_NENS, X_SKIPV, X_SKIPV)  \
    } while (0)
#elif defined(VERIF_TAGDUMP)
/* preprocessor-only mode used by vlib to recover the ordered tag list per contract */
#define RET RET
#define X_TAG(t, c) @@ENS t
#define DFCC_CONTRACT(fn) @@BEGIN fn CONTRACT_##fn(X_SKIP1, X_TAG, X_SKIPV, X_SKIPV) @@END
#define DFCC_CONTRACT_AS(fn, c) @@BEGIN fn CONTRACT_##c(X_SKIP1, X_TAG, X_SKIPV, X_SKIPV) @@END
#define H_CALL(fn, stmt)
#elif defined(VERIF_INLINE_CONTRACT)
/* The contract of the function under test is checked around the call by plain
 * assume/assert instead of DFCC instrumentation (no assigns/frees checking): used where
 * the DFCC write-set instrumentation makes a unit too large. Tags travel in the assertion
 * text. */
#define RET ret
#define X_IREQ(c) __CPROVER_assume(c);
#define X_IENS(t, c) __CPROVER_assert((c), t);
#define DFCC_CONTRACT(fn)
#define DFCC_CONTRACT_AS(fn, c)
#define H_CALL(fn, stmt)                                  \
    do {                                                  \
        CONTRACT_##fn(X_IREQ, X_SKIP2, X_SKIPV, X_SKIPV)  \
        stmt;                                             \
        CONTRACT_##fn(X_SKIP1, X_IENS, X_SKIPV, X_SKIPV)  \
    } while (0)
#else
#define RET __CPROVER_return_value
#define X_REQ(c) __CPROVER_requires(c)
#define X_ENS(t, c) __CPROVER_ensures(c)
#define X_ASG(...) __CPROVER_assigns(__VA_ARGS__)
#define X_FRE(...) __CPROVER_frees(__VA_ARGS__)
#define DFCC_CONTRACT(fn) CONTRACT_##fn(X_REQ, X_ENS, X_ASG, X_FRE)
/* attach the contract of `c` to another function (a stub that must satisfy it) */
#define DFCC_CONTRACT_AS(fn, c) CONTRACT_##c(X_REQ, X_ENS, X_ASG, X_FRE)
#define H_CALL(fn, stmt)                                  \
    do {                                                  \
        stmt;                                             \
    } while (0)
#endif

#endif
