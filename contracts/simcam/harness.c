/* C17/C18: contracts on the real
 *   /repo/acquire-driver-common/src/simcams/simulated.camera.c
 * #included unmodified, compiled WITHOUT -mavx2 so that it textually includes
 * bin2.plain.c; bin2, im_fill_pattern_* (C++), popcount_u8 (C++) and pcg32_random are
 * replaced by assumed contracts (listed in the evidence). Platform primitives are
 * monitor-rule stubs as for the channel. */
#include "verif.h"
#include "device/kit/camera.h"
#include "device/props/camera.h"
#include "device/props/components.h"
#include "identifiers.h"
#include "platform.h"

#include <stdlib.h>
#include <string.h>
#ifdef VERIF_NATIVE
#include <malloc.h>
#endif

void
aq_logger(int is_error, const char* file, int line, const char* function, const char* fmt, ...)
{
}

/* ------------------------------------------------------------------ assumed contracts */
uint8_t
popcount_u8(uint8_t v)
{
    /* C++ in the product (popcount.cpp): number of set bits */
    return (uint8_t)((v & 1) + ((v >> 1) & 1) + ((v >> 2) & 1) + ((v >> 3) & 1) + ((v >> 4) & 1) +
                     ((v >> 5) & 1) + ((v >> 6) & 1) + ((v >> 7) & 1));
}
uint32_t
pcg32_random(void)
{
    return nd_uint();
}
size_t
bytes_of_type(enum SampleType type)
{
    /* contract enforced in misc.bytes_of_type */
    return ((unsigned)type == SampleType_u8 || (unsigned)type == SampleType_i8) ? 1
           : (unsigned)type == SampleType_f32                                  ? 4
           : (unsigned)type < SampleTypeCount                                  ? 2
                                                                               : 0;
}
size_t
bytes_of_image(const struct ImageShape* const shape)
{
    /* contract enforced in misc.bytes_of_image */
    return (size_t)shape->strides.planes * bytes_of_type(shape->type);
}

/* ------------------------------------------------------------------ ghost */
static struct cam_ghost
{
    int held, acquires, releases, waits_frame, waits_trigger, notifies_frame, notifies_trigger;
    int d_frame;   /* discipline automaton for the frame_ready waiter (get_frame)        */
    int d_trigger; /* discipline automaton for the trigger_ready waiter (streamer)       */
    int n_create, n_join;
    /* streamer observation points */
    unsigned long iterations, published, triggers_fired, triggers_consumed;
    int64_t last_published_id;
    int published_bad;
    int n_bin2;
    int streamer_unit;
    int waits_this_loop;
} cg;

enum
{
    D_CLEAN = 0,
    D_DIRTY_CS,
    D_DIRTY_OUT,
    D_PUBLISHED,
    D_NOTIFIED
};

struct SimulatedCamera;
static struct SimulatedCamera* g_cam;
static int64_t g_streamer_frame0;
/* inputs of the two wait predicates, snapshotted at every lock/notify event */
static struct cam_inputs
{
    int is_running;
    int64_t frame_id;
    int triggered;
    uint8_t trig_enable;
} g_last_in;
static void cam_inputs_now(struct cam_inputs* o);
static void
d_note(int held_during)
{
    struct cam_inputs now;
    cam_inputs_now(&now);
    /* get_frame waits for: !is_running || frame_id > last_emitted */
    if (now.is_running != g_last_in.is_running || now.frame_id != g_last_in.frame_id)
        cg.d_frame = held_during ? D_DIRTY_CS : D_DIRTY_OUT;
    /* the streamer waits for: !trig_enable || triggered */
    if ((now.triggered && !g_last_in.triggered) || (!now.trig_enable && g_last_in.trig_enable))
        cg.d_trigger = held_during ? D_DIRTY_CS : D_DIRTY_OUT;
    g_last_in = now;
}

static struct lock* g_lock;
static struct condition_variable *g_cv_frame, *g_cv_trigger;

void lock_init(struct lock* self) {}
void condition_variable_init(struct condition_variable* self) {}
void thread_init(struct thread* self) { self->is_live_ = 0; }

void
lock_acquire(struct lock* self)
{
    VASSERT(self == g_lock, "[C18.lock-discipline] foreign lock");
    VASSERT(!cg.held, "[C18.lock-discipline] lock acquired twice");
    d_note(0);
    cg.held = 1;
    cg.acquires++;
}
void
lock_release(struct lock* self)
{
    VASSERT(self == g_lock && cg.held, "[C18.lock-discipline] release without acquire");
    d_note(1);
    if (cg.d_frame == D_DIRTY_CS || cg.d_frame == D_DIRTY_OUT)
        cg.d_frame = D_PUBLISHED;
    if (cg.d_trigger == D_DIRTY_CS || cg.d_trigger == D_DIRTY_OUT)
        cg.d_trigger = D_PUBLISHED;
    cg.held = 0;
    cg.releases++;
}
void
condition_variable_notify_all(struct condition_variable* self)
{
    d_note(cg.held);
    if (self == g_cv_frame) {
        if (cg.streamer_unit)
            streamer_published();
        if (cg.d_frame == D_PUBLISHED || cg.d_frame == D_DIRTY_CS)
            cg.d_frame = D_NOTIFIED;
        if (cg.notifies_frame < 3)
            cg.notifies_frame++;
    } else {
        VASSERT(self == g_cv_trigger, "[C18.lock-discipline] foreign condition variable");
        if (cg.d_trigger == D_PUBLISHED || cg.d_trigger == D_DIRTY_CS)
            cg.d_trigger = D_NOTIFIED;
        if (cg.notifies_trigger < 3)
            cg.notifies_trigger++;
    }
}
static void streamer_published(void);
static void env_step_frame_wait(void);
static void env_step_trigger_wait(void);
void
condition_variable_wait(struct condition_variable* self, struct lock* lock)
{
    VASSERT(lock == g_lock && cg.held, "[C18.lock-discipline] wait without holding the lock");
    if (self == g_cv_frame)
        env_step_frame_wait();
    else {
        VASSERT(self == g_cv_trigger, "[C18.lock-discipline] foreign condition variable");
        env_step_trigger_wait();
    }
    cam_inputs_now(&g_last_in);
}
uint8_t
thread_create(struct thread* self, void (*proc)(void*), void* args)
{
    if (cg.n_create < 3)
        cg.n_create++;
    return nd_bool();
}
void
thread_join(struct thread* self)
{
    if (cg.n_join < 3)
        cg.n_join++;
}
void clock_init(struct clock* c) { c->origin = 0; }
uint64_t clock_tic(struct clock* c);
double clock_toc_ms(struct clock* c) { return (double)nd_int(); }
void clock_sleep_ms(struct clock* c, float ms) {}

/* rendering back ends: assumed write-extent contracts, checked against the capacity */
static size_t cap_of(const void* buf);
void
im_fill_pattern_u8(const struct ImageShape* const shape, float ox, float oy, uint8_t* buf)
{
    VASSERT(cap_of(buf) >= (size_t)shape->strides.planes, "[C17.render-within-buffer] the u8 pattern fits the render buffer");
}
void
im_fill_pattern_i8(const struct ImageShape* const shape, float ox, float oy, int8_t* buf)
{
    VASSERT(cap_of(buf) >= (size_t)shape->strides.planes, "[C17.render-within-buffer] the i8 pattern fits the render buffer");
}
void
im_fill_pattern_u16(const struct ImageShape* const shape, float ox, float oy, uint16_t* buf)
{
    VASSERT(cap_of(buf) >= 2 * (size_t)shape->strides.planes, "[C17.render-within-buffer] the u16 pattern fits the render buffer");
}
void
im_fill_pattern_i16(const struct ImageShape* const shape, float ox, float oy, int16_t* buf)
{
    VASSERT(cap_of(buf) >= 2 * (size_t)shape->strides.planes, "[C17.render-within-buffer] the i16 pattern fits the render buffer");
}
void
im_fill_pattern_f32(const struct ImageShape* const shape, float ox, float oy, float* buf)
{
    VASSERT(cap_of(buf) >= 4 * (size_t)shape->strides.planes, "[C17.render-within-buffer] the f32 pattern fits the render buffer");
}

/* ================================================================== real code */
#include "simcams/simulated.camera.c"

/* capacity of an image buffer: a ghost constant for the two never-reassigned ghost buffer
 * pointers of the units with loop contracts, else the size of the heap object itself */
static void *g_bufA, *g_bufB;
static size_t g_capA, g_capB, g_full_bytes;
static size_t
cap_of(const void* buf)
{
    if (buf && buf == g_bufA)
        return g_capA;
    if (buf && buf == g_bufB)
        return g_capB;
#ifdef VERIF_NATIVE
    return buf ? malloc_usable_size((void*)buf) : 0;
#else
    return buf ? __CPROVER_OBJECT_SIZE(buf) : 0;
#endif
}

static void
cam_inputs_now(struct cam_inputs* o)
{
    o->is_running = g_cam->streamer.is_running;
    o->frame_id = g_cam->im.frame_id;
    o->triggered = g_cam->software_trigger.triggered;
    o->trig_enable = g_cam->properties.input_triggers.frame_start.enable;
}

#ifndef STREAMER_MAX_ITER
#define STREAMER_MAX_ITER 3
#endif
uint64_t
clock_tic(struct clock* c)
{
    if (cg.streamer_unit && c != 0) {
        /* observation point: called once per streamer iteration right after the trigger
         * wait; the caller of stop may clear is_running at any time, and does so at the
         * latest after STREAMER_MAX_ITER iterations (bounded stand-in) */
        cg.iterations++;
        cg.waits_this_loop = 0;
        if (cg.iterations >= STREAMER_MAX_ITER || nd_bool())
            g_cam->streamer.is_running = 0;
        if (nd_bool())
            g_cam->im.frame_wanted = 1; /* a frame call is pending */
    }
    return nd_ulong();
}

static void
streamer_published(void)
{
    /* called under the lock when the streamer hands a frame over */
    cg.published++;
    if (!(g_cam->im.frame_id > cg.last_published_id && g_cam->im.frame_id == g_streamer_frame0 + (int64_t)cg.iterations))
        cg.published_bad++;
    cg.last_published_id = g_cam->im.frame_id;
}

/* get_frame sleeping: the streamer may publish frames (frame_id never decreases), anyone
 * may stop the camera */
static void
env_step_frame_wait(void)
{
    if (cg.waits_frame < 3)
        cg.waits_frame++;
    int64_t f0 = g_cam->im.frame_id;
    g_cam->im.frame_id = nd_long();
    VASSUME(g_cam->im.frame_id >= f0 && g_cam->im.frame_id < ((int64_t)1 << 62));
    g_cam->streamer.is_running = nd_bool();
    g_cam->hardware_timestamp = nd_ulong();
    g_cam->im.frame_wanted = nd_uchar();
    /* (the streamer also swaps frame_data/render_data when it publishes; the two buffers
     * have the same capacity and a havocked pointer field makes CBMC's memcpy model
     * intractable, so the swap is not replayed here - stated in the unit's doc) */
}

/* streamer sleeping on the trigger: `triggered` goes 0->1 only together with a fired
 * trigger; stop clears is_running; set may disable the trigger */
static void
env_step_trigger_wait(void)
{
    if (cg.waits_trigger < 3)
        cg.waits_trigger++;
    cg.waits_this_loop++;
    /* bounded stand-in: at most 3 spurious wake-ups before a trigger arrives */
    if (cg.waits_this_loop >= 3 || nd_bool()) {
        if (!g_cam->software_trigger.triggered)
            cg.triggers_fired++; /* a trigger that finds the flag already set is merged */
        g_cam->software_trigger.triggered = 1;
        g_cam->im.frame_wanted = 1;
    }
    if (nd_bool())
        g_cam->streamer.is_running = 0;
}

#include "contracts.h"
