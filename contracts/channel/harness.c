/* C01/C02/C03: contracts on the real /repo/acquire-video-runtime/src/runtime/channel.c.
 *
 * channel.c is #included unmodified.  Differences from the product build: the platform
 * primitives it calls (lock_*, condition_variable_*, memory_*) are the contract stubs
 * below (monitor rule, DESIGN sec. 4.1/4.2); aq_logger is not used by this file. */
#include "verif.h"
#include "runtime/channel.h"
#include "spec.h"

#include <stdlib.h>
#include <string.h>
#ifdef VERIF_NATIVE
#include <sys/mman.h>
#endif

/* ------------------------------------------------------------------ ghost state */
static struct channel g_c; /* the channel under test: self == &g_c              */
static struct channel g_s; /* snapshot at the last lock acquisition / wake-up    */
static struct channel g_e; /* state at function entry                            */
static struct channel g_v; /* entry state with a joining reader already registered */
static struct channel g_last; /* discipline automaton: state at the previous event */

enum
{
    D_CLEAN = 0,
    D_DIRTY_CS,   /* a wait-predicate input changed inside a critical section      */
    D_DIRTY_OUT,  /* ... changed outside any critical section                      */
    D_PUBLISHED,  /* changed, and this thread released the lock afterwards         */
    D_NOTIFIED,   /* published (or still in the critical section) and then notified */
};

static struct chan_ghost
{
    int held;
    int acquires, releases, waits, notifies;
    int d;       /* discipline automaton state */
    unsigned j;  /* slot index of the reader under test */
    /* an arbitrary OTHER party: a reader that currently has a region mapped */
    int peer_mapped;
    unsigned peer_j;
    size_t peer_pos, peer_cycle;
    int is_writer_op; /* environment model: which role is executing */
} gh;

/* a change that can turn the writer's wait predicate from false to true: the refuse
 * signal, or an existing reader hold moving.  (A joining reader only adds constraints.) */
#define ENABLING_CHANGE(o, c)                                                  \
    (((o).is_accepting_writes && !(c).is_accepting_writes) ||                  \
     !ALL8_2(o, c, SLOT_SAME))

static void
d_note_changes(int held_during_interval)
{
    if (ENABLING_CHANGE(g_last, g_c))
        gh.d = held_during_interval ? D_DIRTY_CS : D_DIRTY_OUT;
    g_last = g_c;
}


/* ------------------------------------------------------------------ platform stubs */
void
lock_init(struct lock* self)
{
}
void
condition_variable_init(struct condition_variable* self)
{
}

void
lock_acquire(struct lock* self)
{
    VASSERT(self == &g_c.lock, "[C03.lock-discipline] foreign lock");
    VASSERT(!gh.held, "[C03.lock-discipline] lock acquired twice");
    d_note_changes(0);
    gh.held = 1;
    gh.acquires++;
    g_s = g_c;
}

void
lock_release(struct lock* self)
{
    VASSERT(self == &g_c.lock, "[C03.lock-discipline] foreign lock");
    VASSERT(gh.held, "[C03.lock-discipline] release without acquire");
    VASSERT(INV(g_c), "[C01.monitor-invariant,C02.monitor-invariant] the channel "
                      "invariant holds whenever the lock is released");
    d_note_changes(1);
    if (gh.d == D_DIRTY_CS || gh.d == D_DIRTY_OUT)
        gh.d = D_PUBLISHED;
    gh.held = 0;
    gh.releases++;
}

void
condition_variable_notify_all(struct condition_variable* self)
{
    VASSERT(self == &g_c.notify_space_available, "[C03.lock-discipline] foreign cv");
    d_note_changes(gh.held);
    if (gh.d == D_PUBLISHED || gh.d == D_DIRTY_CS)
        gh.d = D_NOTIFIED;
    if (gh.notifies < 2)
        gh.notifies++;
}

/* wait = release; the environment performs any number of other critical sections;
 * re-acquire.  Rely: single writer (head/high/cycle/mapped/capacity/data unchanged),
 * readers and the refuse flag arbitrary, invariant re-established. */
void
condition_variable_wait(struct condition_variable* self, struct lock* lock)
{
    VASSERT(self == &g_c.notify_space_available && lock == &g_c.lock,
            "[C03.lock-discipline] wait on foreign objects");
    VASSERT(gh.held, "[C03.lock-discipline] wait without holding the lock");
    VASSERT(INV(g_c), "[C01.monitor-invariant,C02.monitor-invariant] the channel "
                      "invariant holds when the writer goes to sleep");
    VASSERT(g_c.holds.n > 0 && g_c.is_accepting_writes,
            "[C03.sleeps-only-when-blocked] the writer only sleeps while writes are "
            "accepted and some reader exists");
    d_note_changes(1);
    unsigned n0 = g_c.holds.n;
    g_c.holds.pos[0] = nd_ulong();
    g_c.holds.pos[1] = nd_ulong();
    g_c.holds.pos[2] = nd_ulong();
    g_c.holds.pos[3] = nd_ulong();
    g_c.holds.pos[4] = nd_ulong();
    g_c.holds.pos[5] = nd_ulong();
    g_c.holds.pos[6] = nd_ulong();
    g_c.holds.pos[7] = nd_ulong();
    g_c.holds.cycles[0] = nd_ulong();
    g_c.holds.cycles[1] = nd_ulong();
    g_c.holds.cycles[2] = nd_ulong();
    g_c.holds.cycles[3] = nd_ulong();
    g_c.holds.cycles[4] = nd_ulong();
    g_c.holds.cycles[5] = nd_ulong();
    g_c.holds.cycles[6] = nd_ulong();
    g_c.holds.cycles[7] = nd_ulong();
    g_c.holds.n = nd_uint();
    g_c.is_accepting_writes = nd_uchar();
    gh.peer_mapped = nd_bool();
    gh.peer_j = nd_uint();
    gh.peer_pos = nd_ulong();
    gh.peer_cycle = nd_ulong();
    VASSUME(g_c.holds.n >= n0 && g_c.holds.n <= VERIF_MAX_READERS);
    VASSUME(INV(g_c));
    VASSUME(gh.peer_j < g_c.holds.n);
    VASSUME(PEER_OK(g_c));
    g_last = g_c;
    g_s = g_c;
    if (gh.waits < 2)
        gh.waits++; /* saturating: only 0 / >0 matters */
}

static int g_alloc_count;
void*
memory_alloc(size_t capacity_bytes, enum AllocatorHint hint)
{
    g_alloc_count++;
    void* p = malloc(capacity_bytes);
    VASSUME(p != 0); /* allocation failure is outside the properties (stated) */
    return p;
}
void
memory_free(void* address)
{
    free(address);
}

/* ================================================================== contracts */
#define DISJ(a, n, b, m) ((n) == 0 || (m) == 0 || (a) + (n) <= (b) || (b) + (m) <= (a))
/* the writer's region R=[rb, rb+rn) against reader i's unread path in state c */
#define REGION_FREE_OF(c, i, rb, rn)                                           \
    (DISJ(rb, rn, P_(c, i), A_LEN(c, i)) && DISJ(rb, rn, (size_t)0, B_LEN(c, i)))

#define LEX_LE(ya, pa, yb, pb) ((ya) < (yb) || ((ya) == (yb) && (pa) <= (pb)))

#define CONTRACT_cursor_cmp(REQ, ENS, ASG, FRE)                                               \
    ENS("[C02.cursor-order] cursor_cmp is the lexicographic order on (cycle, pos)",          \
        (RET == -1 || RET == 0 || RET == 1) &&                                                \
          IFF(RET == -1, cycle_a < cycle_b || (cycle_a == cycle_b && pos_a < pos_b)) &&       \
          IFF(RET == 0, cycle_a == cycle_b && pos_a == pos_b))                                \
    ASG()

#define MIN_LE(c, i) LEX_LE(cycles[RET], tails[RET], Y_(c, i), P_(c, i))
#define CONTRACT_reader_min(REQ, ENS, ASG, FRE)                                               \
    REQ(tails == g_c.holds.pos && cycles == g_c.holds.cycles && n == g_c.holds.n)             \
    REQ(n >= 1 && n <= 8)                                                                     \
    ENS("[C02.reader-min] reader_min returns a registered reader", RET < n)                   \
    ENS("[C02.reader-min] ... that is lexicographically least among all registered "         \
        "readers",                                                                            \
        ALL8(g_c, MIN_LE))                                                                    \
    ASG()

#define NW_REGION_FREE(c, i) REGION_FREE_OF(c, i, *beg, nbytes)
#define NW_WRAP_KEEPS_INV(c, i)                                                               \
    (*beg == (c).head ? IMPL(!SAME_LAP(c, i), (c).head + nbytes <= P_(c, i))                  \
                      : (SAME_LAP(c, i) && (*should_wrap || nbytes <= P_(c, i))))
#define AT_HEAD(c, i) (SAME_LAP(c, i) && P_(c, i) == (c).head)
#define CONTRACT_next_write(REQ, ENS, ASG, FRE)                                               \
    REQ(self == &g_c && INV(g_c) && g_c.holds.n >= 1 && g_c.cycle < CYCLE_MAX)                \
    REQ(beg != 0 && should_wrap != 0)                                                         \
    ENS("[C03.refused-returns-0] next_write reports no space when writes are refused",       \
        IMPL(!g_c.is_accepting_writes, RET == 0))                                             \
    ENS("[C02.region-in-bounds] a granted region starts at head or at 0 and ends inside "    \
        "the buffer",                                                                         \
        IMPL(RET != 0, RET == 1 && (*beg == g_c.head || *beg == 0) &&                         \
                         nbytes <= g_c.capacity && *beg <= g_c.capacity - nbytes))            \
    ENS("[C02.region-free-of-unread] a granted region overlaps no unread byte of any "       \
        "reader (so none it has mapped either)",                                              \
        IMPL(RET != 0, ALL8(g_c, NW_REGION_FREE)))                                            \
    ENS("[C02.wrap-keeps-invariant] placement keeps every reader at most one lap behind "    \
        "and in front of the region",                                                         \
        IMPL(RET != 0, ALL8(g_c, NW_WRAP_KEEPS_INV)))                                         \
    ENS("[C02.reset-only-when-drained] readers are reset only when every reader is "         \
        "drained at the head",                                                                \
        (*should_wrap == 0 || *should_wrap == 1) &&                                           \
          IMPL(RET != 0 && *should_wrap, *beg == 0 && g_c.head != 0 && ALL8(g_c, AT_HEAD)))   \
    ENS("[C03.progress-when-drained] with writes accepted, every reader drained at the "     \
        "head and a request below the capacity, space is found",                              \
        IMPL(g_c.is_accepting_writes && ALL8(g_c, AT_HEAD) && nbytes < g_c.capacity,          \
             RET == 1))                                                                       \
    ASG(*beg, *should_wrap)

#define CH_PRE(REQ)                                                                           \
    REQ(self == &g_c && INV(g_c) && !gh.held && gh.d == D_CLEAN)                              \
    REQ(g_c.cycle < CYCLE_MAX) /* machine arithmetic: the lap counter does not wrap */        \
    REQ(gh.acquires == 0 && gh.releases == 0 && gh.waits == 0 && gh.notifies == 0)            \
    REQ(!gh.peer_mapped || (gh.peer_j < g_c.holds.n && PEER_OK(g_c)))

#define CH_POST(ENS)                                                                          \
    ENS("[C01.invariant,C02.invariant] the channel invariant holds on return and the lock "  \
        "is not held",                                                                        \
        INV(g_c) && !gh.held && gh.acquires == gh.releases)                                   \
    ENS("[C02.mapped-reader-undisturbed] a region some other reader has mapped stays "       \
        "inside the committed, unreclaimed data",                                             \
        PEER_OK(g_c))


#define WM_REGION_FREE(c, i) REGION_FREE_OF(c, i, (c).head, nbytes)
#define CONTRACT_channel_write_map(REQ, ENS, ASG, FRE)                                        \
    CH_PRE(REQ)                                                                               \
    CH_POST(ENS)                                                                              \
    ENS("[C03.null-only-if-refused-or-too-big,C01.failed-map-changes-nothing] no region is " \
        "returned only for a request not below the capacity or after observing the refuse "   \
        "signal, and then nothing changed",                                                   \
        IMPL(RET == 0, (nbytes >= g_c.capacity || !g_c.is_accepting_writes) &&                \
                         ALL_SAME(g_s, g_c)))                                                 \
    ENS("[C03.refuse-observed] a writer that could block (some reader exists) returns no "   \
        "region once it observes the refuse signal under the lock",                           \
        IMPL(nbytes < g_e.capacity && !g_s.is_accepting_writes && g_s.holds.n > 0, RET == 0)) \
    ENS("[C02.region-contiguous-in-bounds] the region is [head, mapped): contiguous, "       \
        "nbytes long, inside the buffer",                                                     \
        IMPL(RET != 0, RET == (void*)(g_c.data + g_c.head) &&                                 \
                         g_c.mapped == g_c.head + nbytes && g_c.mapped <= g_c.capacity))      \
    ENS("[C02.region-free-of-unread] the region overlaps no byte any reader has not yet "    \
        "consumed (or has mapped)",                                                           \
        IMPL(RET != 0, ALL8(g_c, WM_REGION_FREE)))                                            \
    ENS("[C01.write-map-keeps-paths] mapping a write (including a wrap-around) leaves "      \
        "every reader's unread byte sequence unchanged",                                      \
        IMPL(RET != 0, g_c.holds.n == g_s.holds.n && ALL8_2(g_s, g_c, PATH_SAME)))            \
    ENS("[C01.wrap-bookkeeping] a wrap records the old head as high and starts a new lap; " \
        "otherwise head, high and the lap are untouched",                                     \
        IMPL(RET != 0,                                                                        \
             g_c.data == g_s.data && g_c.capacity == g_s.capacity &&                          \
               g_c.is_accepting_writes == g_s.is_accepting_writes &&                          \
               (g_c.head == g_s.head                                                          \
                  ? (g_c.high == g_s.high && g_c.cycle == g_s.cycle)                          \
                  : (g_c.head == 0 && g_c.high == g_s.head && g_c.cycle == g_s.cycle + 1))))  \
    ASG(g_c, g_s, g_last, gh)

#define CONTRACT_channel_write_unmap(REQ, ENS, ASG, FRE)                                      \
    CH_PRE(REQ)                                                                               \
    CH_POST(ENS)                                                                              \
    ENS("[C01.commit-appends-at-end] committing extends every reader's unread sequence at " \
        "its end by exactly the written region",                                              \
        IMPL(g_e.is_accepting_writes,                                                         \
             g_c.head == g_e.mapped && g_c.mapped == g_e.mapped && g_c.high == g_e.high &&    \
               g_c.cycle == g_e.cycle && g_c.data == g_e.data &&                              \
               g_c.capacity == g_e.capacity && g_c.holds.n == g_e.holds.n &&                  \
               ALL8_2(g_e, g_c, PATH_EXTENDED)))                                              \
    ENS("[C01.refused-commit-changes-nothing] a commit while writes are refused changes "    \
        "nothing",                                                                            \
        IMPL(!g_e.is_accepting_writes, ALL_SAME(g_e, g_c)))                                   \
    ENS("[C01.frame] the accept flag is untouched",                                          \
        g_c.is_accepting_writes == g_e.is_accepting_writes)                                   \
    ASG(g_c, g_s, g_last, gh)

#define CONTRACT_channel_abort_write(REQ, ENS, ASG, FRE)                                      \
    CH_PRE(REQ)                                                                               \
    CH_POST(ENS)                                                                              \
    ENS("[C01.abort-discards-region] an aborted write adds nothing to any reader's unread " \
        "sequence: only the pending region is dropped",                                       \
        g_c.head == g_e.head && g_c.high == g_e.high && g_c.cycle == g_e.cycle &&             \
          g_c.data == g_e.data && g_c.capacity == g_e.capacity &&                             \
          g_c.holds.n == g_e.holds.n && ALL8_2(g_e, g_c, SLOT_SAME) &&                        \
          g_c.is_accepting_writes == g_e.is_accepting_writes &&                               \
          g_c.mapped == (g_e.is_accepting_writes ? g_e.head : g_e.mapped))                    \
    ASG(g_c, g_s, g_last, gh)

#define D_FINAL_OK ((gh.d == D_CLEAN || gh.d == D_NOTIFIED) && !ENABLING_CHANGE(g_last, g_c))

#define CONTRACT_channel_accept_writes(REQ, ENS, ASG, FRE)                                    \
    CH_PRE(REQ)                                                                               \
    REQ(tf <= 1)                                                                              \
    CH_POST(ENS)                                                                              \
    ENS("[C01.frame] only the accept flag changes",                                          \
        WRITER_FIELDS_SAME(g_e, g_c) && g_c.holds.n == g_e.holds.n &&                         \
          ALL8_2(g_e, g_c, SLOT_SAME) && g_c.is_accepting_writes == (tf ? 1 : 0))             \
    ENS("[C03.refuse-is-published] the refuse signal is written, then the lock is passed, "  \
        "then the writer is notified: it cannot be missed by a writer about to sleep",        \
        D_FINAL_OK)                                                                           \
    ENS("[C03.refuse-notifies] accept_writes always notifies", gh.notifies >= 1)             \
    ASG(g_c, g_s, g_last, gh)

/* reader operations: slot index gh.j; g_v = entry state with a joining reader registered */
#define OTHER_SLOT_SAME(o, c, i) ((i) == gh.j || SLOT_SAME(o, c, i))
#define RD_FRAME(o, c)                                                                        \
    (WRITER_FIELDS_SAME(o, c) && (c).holds.n == (o).holds.n &&                                \
     (c).is_accepting_writes == (o).is_accepting_writes && ALL8_2(o, c, OTHER_SLOT_SAME))

#define CONTRACT_channel_read_map(REQ, ENS, ASG, FRE)                                         \
    CH_PRE(REQ)                                                                               \
    REQ(reader != 0 && reader->state == ChannelState_Unmapped &&                              \
        reader->status == Channel_Ok)                                                         \
    REQ((reader->id == 0 && g_c.holds.n < 8 && gh.j == g_c.holds.n) ||                        \
        (reader->id >= 1 && reader->id <= g_c.holds.n && gh.j == reader->id - 1))             \
    REQ(!gh.peer_mapped || gh.peer_j != gh.j)                                                 \
    CH_POST(ENS)                                                                              \
    ENS("[C01.join-at-lap-start] a joining reader is registered at the start of the "        \
        "current lap (a write boundary)",                                                     \
        reader->id == gh.j + 1 && g_c.holds.n == g_v.holds.n)                                 \
    ENS("[C01.slice-is-first-interval,C02.slice-inside-committed] the mapped region is "    \
        "exactly the first interval of the reader's unread sequence",                         \
        IMPL(N1_LENJ(g_v, gh.j) > 0,                                                          \
             RET.beg == g_v.data + N1_LOJ(g_v, gh.j) &&                                       \
               RET.end == RET.beg + N1_LENJ(g_v, gh.j)))                                      \
    ENS("[C01.empty-means-drained,C04.empty-means-drained,C06.empty-means-drained] an "     \
        "empty region is returned only when the reader has consumed everything committed",    \
        IMPL(RET.end == RET.beg, UNREADJ(g_v, gh.j) == 0))                                  \
    ENS("[C01.map-consumes-nothing] mapping removes nothing from the unread sequence",       \
        N1_LENJ(g_c, gh.j) == N1_LENJ(g_v, gh.j) && N2_LENJ(g_c, gh.j) == N2_LENJ(g_v, gh.j) && \
          (N1_LENJ(g_v, gh.j) == 0 || N1_LOJ(g_c, gh.j) == N1_LOJ(g_v, gh.j)))                \
    ENS("[C02.mapped-cursor-ok] a non-empty map leaves the reader Mapped with a cursor "     \
        "that describes the held bytes; an empty one leaves it Unmapped",                     \
        (RET.end != RET.beg)                                                                  \
          ? (reader->state == ChannelState_Mapped &&                                          \
             MAPPED_OK(g_c, gh.j, reader->pos, reader->cycle) &&                              \
             RET.end == RET.beg + HELD_LEN(g_c, gh.j, reader->pos, reader->cycle))            \
          : (reader->state == ChannelState_Unmapped))                   \
    ENS("[C01.no-spurious-error,C06.status-stays-ok] the reader's status stays Ok",          \
        reader->status == Channel_Ok)                                                         \
    ENS("[C01.frame,C06.other-readers-untouched] nothing but this reader's slot changes",    \
        RD_FRAME(g_v, g_c))                                                                   \
    ENS("[C03.hold-move-notifies] if mapping moved this reader's hold, the change is "       \
        "published and the writer notified",                                                  \
        D_FINAL_OK)                                                                           \
    ASG(g_c, g_s, g_last, gh, *reader)

#define RU_M (consumed_bytes < g_held_len ? consumed_bytes : g_held_len)
#define CONTRACT_channel_read_unmap(REQ, ENS, ASG, FRE)                                       \
    CH_PRE(REQ)                                                                               \
    REQ(reader != 0 && reader->id >= 1 && reader->id <= g_c.holds.n &&                        \
        gh.j == reader->id - 1)                                                               \
    REQ(reader->state == ChannelState_Unmapped ||                                             \
        (reader->state == ChannelState_Mapped &&                                              \
         MAPPED_OK(g_c, gh.j, reader->pos, reader->cycle)))                                   \
    REQ(g_was_mapped == (reader->state == ChannelState_Mapped) &&                             \
        g_held_len == (g_was_mapped ? HELD_LEN(g_c, gh.j, reader->pos, reader->cycle) : 0))   \
    REQ(!gh.peer_mapped || gh.peer_j != gh.j)                                                 \
    CH_POST(ENS)                                                                              \
    ENS("[C01.unmap-removes-front] unmapping removes exactly min(consumed, held) bytes "     \
        "from the FRONT of the unread sequence: total length",                                \
        IMPL(g_was_mapped, UNREADJ(g_c, gh.j) == UNREADJ(g_e, gh.j) - RU_M))                  \
    ENS("[C01.unmap-removes-front] ... the remainder of the first interval stays in place", \
        IMPL(g_was_mapped && RU_M < N1_LENJ(g_e, gh.j),                                       \
             N1_LOJ(g_c, gh.j) == N1_LOJ(g_e, gh.j) + RU_M &&                                 \
               N1_LENJ(g_c, gh.j) == N1_LENJ(g_e, gh.j) - RU_M &&                             \
               N2_LENJ(g_c, gh.j) == N2_LENJ(g_e, gh.j)))                                     \
    ENS("[C01.unmap-removes-front] ... and when the first interval is used up the second "  \
        "becomes the first",                                                                  \
        IMPL(g_was_mapped && RU_M == N1_LENJ(g_e, gh.j),                                      \
             N1_LENJ(g_c, gh.j) == N2_LENJ(g_e, gh.j) && N2_LENJ(g_c, gh.j) == 0 &&           \
               (N2_LENJ(g_e, gh.j) == 0 || N1_LOJ(g_c, gh.j) == 0)))                          \
    ENS("[C01.held-inside-first-interval] the held bytes were a prefix of the first "        \
        "interval", IMPL(g_was_mapped, g_held_len <= N1_LENJ(g_e, gh.j) && g_held_len > 0))   \
    ENS("[C02.unmap-releases] the reader ends Unmapped", reader->state == ChannelState_Unmapped) \
    ENS("[C01.unmapped-unmap-is-noop] unmapping an unmapped reader changes nothing",         \
        IMPL(!g_was_mapped, ALL_SAME(g_e, g_c) && gh.acquires == 0))                          \
    ENS("[C01.frame,C06.other-readers-untouched] nothing but this reader's slot changes",    \
        RD_FRAME(g_e, g_c) && reader->id == gh.j + 1 && reader->status == g_status0)          \
    ENS("[C03.release-notifies] releasing space is published and the writer notified",       \
        D_FINAL_OK && IMPL(g_was_mapped, gh.notifies >= 1))                                   \
    ASG(g_c, g_s, g_last, gh, *reader)

static size_t g_k; /* ghost byte index */
#define CONTRACT_channel_new(REQ, ENS, ASG, FRE)                                              \
    REQ(self == &g_c && capacity >= 1 && capacity <= CAP_MAX && g_k < capacity)               \
    ENS("[C01.new-establishes-invariant] a new channel is empty, accepts writes, has no "    \
        "readers and satisfies the invariant",                                                \
        INV(g_c) && g_c.capacity == capacity && g_c.head == 0 && g_c.high == 0 &&             \
          g_c.cycle == 0 && g_c.mapped == 0 && g_c.holds.n == 0 &&                            \
          g_c.is_accepting_writes == 1 && g_c.data != 0)                                      \
    ENS("[C10.ring-starts-zeroed] the buffer is zero-filled", g_c.data[g_k] == 0)             \
    ASG(g_c, g_alloc_count)

static int g_was_mapped;
static size_t g_held_len;
static int g_status0;

/* ================================================================== real code */
#ifndef VERIF_NATIVE
/* The contracts of the file-local helpers are only declared in the units that are about
 * them (-DCHANNEL_STATICS: cursor_cmp, reader_min, next_write and the modular write_map).
 * Every other unit speaks about the public functions alone, so a refactoring of the helpers
 * (a changed signature, a merged or split helper) leaves those units buildable: the public
 * contracts are then checked against whatever the helpers have become
 * (channel.write_map.mono verifies channel_write_map with its helpers inlined). */
#ifdef CHANNEL_STATICS
static int
cursor_cmp(size_t cycle_a, size_t pos_a, size_t cycle_b, size_t pos_b)
  DFCC_CONTRACT(cursor_cmp);
static uint32_t
reader_min(const size_t* tails, const size_t* cycles, uint32_t n)
  DFCC_CONTRACT(reader_min);
static uint32_t
next_write(const struct channel* self, size_t nbytes, size_t* beg, uint8_t* should_wrap)
  DFCC_CONTRACT(next_write);
#endif
void
channel_new(struct channel* self, size_t capacity) DFCC_CONTRACT(channel_new);
void*
channel_write_map(struct channel* self, size_t nbytes) DFCC_CONTRACT(channel_write_map);
void
channel_write_unmap(struct channel* self) DFCC_CONTRACT(channel_write_unmap);
void
channel_abort_write(struct channel* self) DFCC_CONTRACT(channel_abort_write);
void
channel_accept_writes(struct channel* self, uint32_t tf)
  DFCC_CONTRACT(channel_accept_writes);
struct slice
channel_read_map(struct channel* self, struct channel_reader* reader)
  DFCC_CONTRACT(channel_read_map);
void
channel_read_unmap(struct channel* self,
                   struct channel_reader* reader,
                   size_t consumed_bytes) DFCC_CONTRACT(channel_read_unmap);
#endif

#include "runtime/channel.c"

/* ================================================================== harnesses */
static void
ghost_reset(void)
{
    memset(&gh, 0, sizeof(gh));
    g_was_mapped = 0;
    g_held_len = 0;
    g_status0 = 0;
    g_alloc_count = 0;
}

/* an arbitrary channel satisfying the invariant */
static struct channel*
arb_channel(void)
{
    ghost_reset();
    memset(&g_c, 0, sizeof(g_c));
    g_c.capacity = nd_ulong();
    g_c.head = nd_ulong();
    g_c.high = nd_ulong();
    g_c.cycle = nd_ulong();
    g_c.mapped = nd_ulong();
    g_c.is_accepting_writes = nd_uchar();
    g_c.holds.n = nd_uint();
    g_c.holds.pos[0] = nd_ulong();
    g_c.holds.pos[1] = nd_ulong();
    g_c.holds.pos[2] = nd_ulong();
    g_c.holds.pos[3] = nd_ulong();
    g_c.holds.pos[4] = nd_ulong();
    g_c.holds.pos[5] = nd_ulong();
    g_c.holds.pos[6] = nd_ulong();
    g_c.holds.pos[7] = nd_ulong();
    g_c.holds.cycles[0] = nd_ulong();
    g_c.holds.cycles[1] = nd_ulong();
    g_c.holds.cycles[2] = nd_ulong();
    g_c.holds.cycles[3] = nd_ulong();
    g_c.holds.cycles[4] = nd_ulong();
    g_c.holds.cycles[5] = nd_ulong();
    g_c.holds.cycles[6] = nd_ulong();
    g_c.holds.cycles[7] = nd_ulong();
    VASSUME(INV(g_c) && g_c.cycle < CYCLE_MAX);
#ifdef VERIF_NATIVE
    /* the channel operations never dereference data: reserve address space only */
    g_c.data = mmap(0, g_c.capacity, PROT_NONE, MAP_PRIVATE | MAP_ANONYMOUS | MAP_NORESERVE, -1, 0);
    VASSUME(g_c.data != (uint8_t*)MAP_FAILED);
#else
    g_c.data = malloc(g_c.capacity);
    VASSUME(g_c.data != 0);
#endif
    /* an arbitrary other reader that may have a region mapped */
    gh.peer_mapped = nd_bool();
    gh.peer_j = nd_uint();
    gh.peer_pos = nd_ulong();
    gh.peer_cycle = nd_ulong();
    VASSUME(!gh.peer_mapped || (gh.peer_j < g_c.holds.n && PEER_OK(g_c)));
    g_e = g_c;
    g_s = g_c;
    g_v = g_c;
    g_last = g_c;
    return &g_c;
}

#ifdef CHANNEL_STATICS
void
h_cursor_cmp(void)
{
    size_t cycle_a = nd_ulong(), pos_a = nd_ulong(), cycle_b = nd_ulong(),
           pos_b = nd_ulong();
    int ret;
    H_CALL(cursor_cmp, ret = cursor_cmp(cycle_a, pos_a, cycle_b, pos_b));
    VCOVER(ret == 1, "greater");
    VCOVER(ret == -1 && cycle_a == cycle_b, "less by position");
    H_END;
}

void
h_reader_min(void)
{
    arb_channel();
    const size_t* tails = g_c.holds.pos;
    const size_t* cycles = g_c.holds.cycles;
    uint32_t n = g_c.holds.n;
    uint32_t ret;
    H_CALL(reader_min, ret = reader_min(tails, cycles, n));
    VCOVER(n == 8 && ret == 7, "eight readers, last is least");
    VCOVER(n == 1, "one reader");
    H_END;
}

void
h_next_write(void)
{
    const struct channel* self = arb_channel();
    size_t nbytes = nd_ulong();
    size_t b = nd_ulong();
    uint8_t w = nd_uchar();
    size_t* beg = &b;
    uint8_t* should_wrap = &w;
    uint32_t ret;
    H_CALL(next_write, ret = next_write(self, nbytes, beg, should_wrap));
    VCOVER(ret && b == g_c.head && g_c.head > 0 && !SAME_LAP(g_c, 0), "case A: behind a reader of the previous lap");
    VCOVER(!ret && g_c.is_accepting_writes && nbytes > 0 && nbytes < g_c.capacity, "blocked");
    VCOVER(ret && b == 0 && g_c.head != 0 && !w, "case B: wrap in front of the readers");
    VCOVER(ret && w, "case E: all drained, reset");
    VCOVER(ret && b == g_c.head && SAME_LAP(g_c, 0) && g_c.holds.n == 8, "case C: room at the end, 8 readers");
    H_END;
}

#endif /* CHANNEL_STATICS */

void
h_channel_write_map(void)
{
    struct channel* self = arb_channel();
    size_t nbytes = nd_ulong();
    gh.is_writer_op = 1;
    void* ret;
    H_CALL(channel_write_map, ret = channel_write_map(self, nbytes));
    VCOVER(ret && gh.waits > 0, "granted after sleeping");
    VCOVER(!ret && gh.waits > 0, "refused after sleeping");
    VCOVER(ret && g_c.head == 0 && g_s.head != 0 && g_c.holds.n > 0, "wrap with readers");
    VCOVER(ret && g_c.holds.n == 0 && g_c.head == 0 && g_s.head != 0, "wrap without readers");
    VCOVER(ret && nbytes == 0, "empty write");
    H_END;
}

void
h_channel_write_unmap(void)
{
    struct channel* self = arb_channel();
    gh.is_writer_op = 1;
    H_CALL(channel_write_unmap, channel_write_unmap(self));
    VCOVER(g_e.is_accepting_writes && g_e.mapped > g_e.head && g_e.holds.n == 8, "commit with 8 readers");
    VCOVER(!g_e.is_accepting_writes && g_e.mapped > g_e.head, "commit while refused");
    H_END;
}

void
h_channel_abort_write(void)
{
    struct channel* self = arb_channel();
    gh.is_writer_op = 1;
    H_CALL(channel_abort_write, channel_abort_write(self));
    VCOVER(g_e.is_accepting_writes && g_e.mapped > g_e.head, "abort a pending write");
    H_END;
}

void
h_channel_accept_writes(void)
{
    struct channel* self = arb_channel();
    uint32_t tf = nd_uint();
    H_CALL(channel_accept_writes, channel_accept_writes(self, tf));
    VCOVER(g_e.is_accepting_writes && !tf, "refuse");
    VCOVER(!g_e.is_accepting_writes && tf, "accept again");
    H_END;
}

static struct channel_reader g_reader;

void
h_channel_read_map(void)
{
    struct channel* self = arb_channel();
    struct channel_reader* reader = &g_reader;
    reader->id = nd_uint();
    reader->pos = nd_ulong();
    reader->cycle = nd_ulong();
    reader->status = Channel_Ok;
    reader->state = ChannelState_Unmapped;
    if (reader->id == 0) {
        gh.j = g_c.holds.n;
        VASSUME(g_c.holds.n < 8);
        /* the joining reader's unread sequence is [0, head) of the current lap */
        g_v.holds.pos[gh.j] = 0;
        g_v.holds.cycles[gh.j] = g_c.cycle;
        g_v.holds.n = g_c.holds.n + 1;
    } else {
        gh.j = reader->id - 1;
    }
    struct slice ret;
    H_CALL(channel_read_map, ret = channel_read_map(self, reader));
    VCOVER(g_e.holds.n == 0 && ret.end != ret.beg, "first reader joins and gets data");
    VCOVER(reader->id == 8 && g_e.holds.n == 7, "eighth reader joins");
    VCOVER(g_e.holds.n > 0 && gh.j < g_e.holds.n && !SAME_LAP(g_e, 0) && gh.j == 0 && ret.end != ret.beg,
           "reader one lap behind gets data");
    VCOVER(gh.j < g_e.holds.n && gh.j == 0 && !SAME_LAP(g_e, 0) && P_(g_e, 0) == g_e.high && g_e.head > 0,
           "reader parked at high with data in the new lap");
    VCOVER(!(ret.end != ret.beg), "drained");
    H_END;
}

void
h_channel_read_unmap(void)
{
    struct channel* self = arb_channel();
    struct channel_reader* reader = &g_reader;
    reader->id = nd_uint();
    reader->pos = nd_ulong();
    reader->cycle = nd_ulong();
    reader->status = nd_bool() ? Channel_Ok : Channel_Expected_Unmapped_Reader;
    reader->state = nd_bool() ? ChannelState_Mapped : ChannelState_Unmapped;
    VASSUME(reader->id >= 1 && reader->id <= g_c.holds.n);
    gh.j = reader->id - 1;
    size_t consumed_bytes = nd_ulong();
    g_was_mapped = (reader->state == ChannelState_Mapped);
    g_status0 = reader->status;
    VASSUME(!g_was_mapped || MAPPED_OK(g_c, gh.j, reader->pos, reader->cycle));
    g_held_len = g_was_mapped ? HELD_LEN(g_c, gh.j, reader->pos, reader->cycle) : 0;
    H_CALL(channel_read_unmap, channel_read_unmap(self, reader, consumed_bytes));
    VCOVER(g_was_mapped && consumed_bytes > 0 && consumed_bytes < g_held_len, "partial consumption");
    VCOVER(g_was_mapped && consumed_bytes > g_held_len, "over-consumption is clipped");
    VCOVER(g_was_mapped && consumed_bytes == 0, "nothing consumed");
    VCOVER(g_was_mapped && YJ(g_c, gh.j) == YJ(g_e, gh.j) + 1, "lap roll-over on unmap");
    VCOVER(g_was_mapped && reader->pos == 0 && reader->cycle == YJ(g_e, gh.j) + 1, "lap-roll mapping released");
    VCOVER(!g_was_mapped, "unmapped reader");
    H_END;
}

void
h_channel_new(void)
{
    ghost_reset();
    struct channel* self = &g_c;
    size_t capacity = nd_ulong();
    g_k = nd_ulong();
#ifdef VERIF_NATIVE
    VASSUME(capacity <= (1UL << 28));
#endif
    H_CALL(channel_new, channel_new(self, capacity));
    VCOVER(capacity == CAP_MAX, "largest capacity");
    H_END;
}

/* C03 progress lemma (loop-free, full-domain): a reader that keeps reading reaches the
 * drained normal form (same lap, at the head) after at most three map/unmap-all rounds
 * while the writer is idle -- from EVERY state satisfying the invariant. The real
 * functions are executed, not their contracts. */
void
h_lemma_three_rounds_drain(void)
{
    struct channel* self = arb_channel();
    gh.peer_mapped = 0;
    struct channel_reader* reader = &g_reader;
    reader->id = nd_uint();
    reader->pos = nd_ulong();
    reader->cycle = nd_ulong();
    reader->status = Channel_Ok;
    reader->state = ChannelState_Unmapped;
    VASSUME(reader->id >= 1 && reader->id <= g_c.holds.n);
    gh.j = reader->id - 1;
    size_t unread0 = UNREADJ(g_c, gh.j);
    size_t got = 0;
    struct slice s;
    s = channel_read_map(self, reader);
    got += (size_t)(s.end - s.beg);
    channel_read_unmap(self, reader, (size_t)(s.end - s.beg));
    s = channel_read_map(self, reader);
    got += (size_t)(s.end - s.beg);
    channel_read_unmap(self, reader, (size_t)(s.end - s.beg));
    s = channel_read_map(self, reader);
    VASSERT(s.beg == s.end,
            "[C03.bounded-drain,C06.flush-bounded] the third consecutive read of an idle "
            "channel is empty");
    VASSERT(got == unread0,
            "[C03.bounded-drain,C01.drain-delivers-everything] two map/unmap rounds deliver "
            "exactly the unread bytes");
    VASSERT(YJ(g_c, gh.j) == g_c.cycle && PJ(g_c, gh.j) == g_c.head,
            "[C03.bounded-drain] a drained reader ends in the writer's lap at the head, the "
            "state in which next_write finds space (C03.progress-when-drained)");
    VASSERT(WRITER_FIELDS_SAME(g_e, g_c), "[C01.frame] readers never move the writer's cursor");
    VCOVER(unread0 > 0 && !SAME_LAP(g_e, 0) && gh.j == 0 && g_e.head > 0 && P_(g_e, 0) < g_e.high,
           "two non-empty rounds");
    H_END;
}
