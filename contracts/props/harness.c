/* C13: contracts on the real
 *   /repo/acquire-core-libs/src/acquire-device-properties/device/props/storage.c
 * The file is #included unmodified. malloc/realloc/free are routed through counting
 * wrappers (macros defined before the include) so that "every allocation is released
 * exactly once" becomes arithmetic on a ghost live-block counter; CBMC's own double-free
 * and use-after-free checks do the rest. aq_logger is a no-op. */
#include "verif.h"
#include "device/props/storage.h"

#include <stdlib.h>
#include <string.h>

void
aq_logger(int is_error, const char* file, int line, const char* function, const char* fmt, ...)
{
}

/* ------------------------------------------------------------------ ghost heap accounting */
static long g_live;        /* blocks allocated through the wrappers and not yet freed */
static int g_alloc_fails;  /* some allocation failed during the call                  */

static void*
verif_malloc(size_t n)
{
    if (nd_bool()) {
        g_alloc_fails = 1;
        return 0;
    }
    void* p = malloc(n);
    VASSUME(p != 0);
    g_live++;
    return p;
}

static void
verif_free(void* p)
{
    if (p)
        g_live--;
    free(p);
}

static void*
verif_realloc(void* p, size_t n)
{
    /* realloc = allocate, copy the common prefix, release the old block; may fail */
    if (nd_bool()) {
        g_alloc_fails = 1;
        return 0;
    }
    void* q = malloc(n);
    VASSUME(q != 0);
    if (p) {
        size_t old = __CPROVER_OBJECT_SIZE(p);
#ifdef VERIF_NATIVE
        old = n; /* native replay: the harness allocates at least the recorded size */
#endif
        memcpy(q, p, old < n ? old : n);
        free(p);
    } else {
        g_live++;
    }
    return q;
}

#define malloc(n) verif_malloc(n)
#define free(p) verif_free(p)
#define realloc(p, n) verif_realloc(p, n)

/* ------------------------------------------------------------------ well-formedness */
#define MAXLEN ((size_t)1 << 30)
/* an owned string: heap block at offset 0 holding at least nbytes >= 1 bytes, terminated */
#define OWNED(s) ((s).str != 0 && (s).is_ref == 0)
#define WF_STRING(s)                                                           \
    ((s).str == 0 || (s).is_ref != 0 ||                                        \
     ((s).nbytes >= 1 && (s).nbytes <= MAXLEN && __CPROVER_DYNAMIC_OBJECT((s).str) && \
      __CPROVER_POINTER_OFFSET((s).str) == 0 &&                                \
      __CPROVER_OBJECT_SIZE((s).str) >= (s).nbytes && (s).str[(s).nbytes - 1] == 0))
#define NOWNED(s) (OWNED(s) ? 1 : 0)

/* ghost indices for "for every byte" clauses */
static size_t g_i;

/* explicit old values */
static struct String g_dst0, g_src0;
static long g_live0;
static char g_srcbyte0;
static int g_src_is_null;

#define EFF_N(src) (((src) && (src)->str && (src)->nbytes) ? (src)->nbytes : (size_t)1)
#define CONTRACT_copy_string(REQ, ENS, ASG, FRE)                                              \
    REQ(dst != 0 && WF_STRING(*dst))                                                          \
    REQ(src == 0 || src->str == 0 || src->nbytes == 0 ||                                      \
        (src->nbytes <= MAXLEN && __CPROVER_r_ok(src->str, src->nbytes) &&                    \
         !__CPROVER_same_object(src->str, dst->str)))                                         \
    ENS("[C13.stored-string-wellformed] afterwards the destination is well formed (owned "   \
        "heap block of at least nbytes bytes, or NULL after a failed allocation)",            \
        WF_STRING(*dst))                                                                      \
    ENS("[C13.copy-is-deep] success: the destination is owned, has the source's length "     \
        "(1 for an empty/NULL source) and is NUL-terminated at its recorded length",          \
        IMPL(RET != 0, OWNED(*dst) && dst->nbytes == EFF_N(src) &&                            \
                         dst->str[dst->nbytes - 1] == 0))                                     \
    ENS("[C13.copy-is-deep] success: every byte before the terminator equals the source's", \
        IMPL(RET != 0 && !g_src_is_null && g_i + 1 < dst->nbytes,                             \
             dst->str[g_i] == g_srcbyte0))                                                    \
    ENS("[C13.copy-is-deep] success with an empty/NULL source: the empty string",            \
        IMPL(RET != 0 && g_src_is_null, dst->nbytes == 1 && dst->str[0] == 0))                \
    ENS("[C13.shares-no-memory] the destination never aliases the source's bytes",           \
        IMPL(RET != 0 && !g_src_is_null, !__CPROVER_same_object(dst->str, src->str)))         \
    ENS("[C13.source-untouched] the source descriptor is unchanged",                         \
        IMPL(src != 0, src->str == g_src0.str && src->nbytes == g_src0.nbytes &&              \
                         src->is_ref == g_src0.is_ref))                                       \
    ENS("[C13.released-once] block accounting: a destination that owned a block keeps "      \
        "exactly one (reused or replaced, the old one freed once); one that did not gains "   \
        "one on success; a borrowed or NULL string is never freed",                           \
        g_live == g_live0 + (NOWNED(*dst) - NOWNED(g_dst0)))                                  \
    ENS("[C13.failure-only-on-allocation] copy_string fails only when an allocation failed", \
        IMPL(RET == 0, g_alloc_fails))                                                        \
    ASG(*dst, g_live, g_alloc_fails; OWNED(*dst) : __CPROVER_object_whole(dst->str))          \
    FRE(OWNED(*dst) : dst->str)

/* ---- StorageProperties */
#define DMAX 2 /* bound on the dimension count in the units that walk the array */
#define DIMS_WF(p)                                                                            \
    (((p).acquisition_dimensions.data == 0 && (p).acquisition_dimensions.size == 0) ||        \
     ((p).acquisition_dimensions.data != 0 && (p).acquisition_dimensions.size >= 1 &&         \
      (p).acquisition_dimensions.size <= DMAX &&                                              \
      __CPROVER_DYNAMIC_OBJECT((p).acquisition_dimensions.data) &&                            \
      __CPROVER_POINTER_OFFSET((p).acquisition_dimensions.data) == 0 &&                       \
      __CPROVER_OBJECT_SIZE((p).acquisition_dimensions.data) >=                               \
        (p).acquisition_dimensions.size * sizeof(struct StorageDimension) &&                  \
      WF_STRING((p).acquisition_dimensions.data[0].name) &&                                   \
      ((p).acquisition_dimensions.size < 2 ||                                                 \
       WF_STRING((p).acquisition_dimensions.data[1].name))))
#define WF_PROPS(p)                                                                           \
    (WF_STRING((p).uri) && WF_STRING((p).external_metadata_json) &&                           \
     WF_STRING((p).access_key_id) && WF_STRING((p).secret_access_key) && DIMS_WF(p))
#define DIM_OWNED(p, k)                                                                       \
    (((p).acquisition_dimensions.data != 0 && (p).acquisition_dimensions.size > (k))          \
       ? NOWNED((p).acquisition_dimensions.data[k].name)                                      \
       : 0)
/* condition form without ?: for assigns/frees clauses */
#define DIM_OWNED_C(p, k)                                                                     \
    ((p).acquisition_dimensions.data != 0 && (p).acquisition_dimensions.size > (k) &&         \
     (p).acquisition_dimensions.data[k].name.str != 0 &&                                      \
     (p).acquisition_dimensions.data[k].name.is_ref == 0)
/* number of heap blocks a StorageProperties object owns */
#define BLOCKS(p)                                                                             \
    (NOWNED((p).uri) + NOWNED((p).external_metadata_json) + NOWNED((p).access_key_id) +       \
     NOWNED((p).secret_access_key) + ((p).acquisition_dimensions.data != 0 ? 1 : 0) +         \
     DIM_OWNED(p, 0) + DIM_OWNED(p, 1))

static long g_blocks_dst0, g_blocks_src0;
static struct StorageProperties g_pd0, g_ps0; /* shallow old copies */

#define STR_EQ_AT(a, b)                                                                       \
    ((a).nbytes == (b).nbytes && (g_i >= (a).nbytes || (a).str[g_i] == (b).str[g_i]))
/* content equality of the k-th dimension (ghost byte index g_i) */
#define DIM_EQ(d, s, k)                                                                       \
    ((d).acquisition_dimensions.data[k].kind == (s).acquisition_dimensions.data[k].kind &&    \
     (d).acquisition_dimensions.data[k].array_size_px ==                                      \
       (s).acquisition_dimensions.data[k].array_size_px &&                                    \
     (d).acquisition_dimensions.data[k].chunk_size_px ==                                      \
       (s).acquisition_dimensions.data[k].chunk_size_px &&                                    \
     (d).acquisition_dimensions.data[k].shard_size_chunks ==                                  \
       (s).acquisition_dimensions.data[k].shard_size_chunks)

#define SRC_STRING_SAME(f) (src->f.str == g_ps0.f.str && src->f.nbytes == g_ps0.f.nbytes && src->f.is_ref == g_ps0.f.is_ref)
#define CONTRACT_storage_properties_copy(REQ, ENS, ASG, FRE)                                  \
    REQ(dst != 0 && src != 0 && dst != src && WF_PROPS(*dst) && WF_PROPS(*src))               \
    ENS("[C13.stored-string-wellformed] the destination stays well formed",                  \
        WF_PROPS(*dst))                                                                       \
    ENS("[C13.source-untouched] the source is bit-identical and still well formed",          \
        WF_PROPS(*src) && SRC_STRING_SAME(uri) && SRC_STRING_SAME(external_metadata_json) &&  \
          SRC_STRING_SAME(access_key_id) && SRC_STRING_SAME(secret_access_key) &&             \
          src->acquisition_dimensions.data == g_ps0.acquisition_dimensions.data &&            \
          src->acquisition_dimensions.size == g_ps0.acquisition_dimensions.size)              \
    ENS("[C13.copy-complete] success: every scalar field equals the source's",               \
        IMPL(RET != 0, dst->first_frame_id == src->first_frame_id &&                          \
                         dst->pixel_scale_um.x == src->pixel_scale_um.x &&                    \
                         dst->pixel_scale_um.y == src->pixel_scale_um.y &&                    \
                         dst->enable_multiscale == src->enable_multiscale &&                  \
                         dst->acquisition_dimensions.size == src->acquisition_dimensions.size)) \
    ENS("[C13.shares-no-memory] success: the dimension array is the destination's own",      \
        IMPL(RET != 0 && src->acquisition_dimensions.data != 0,                               \
             dst->acquisition_dimensions.data != 0 &&                                         \
               !__CPROVER_same_object(dst->acquisition_dimensions.data,                       \
                                      src->acquisition_dimensions.data)))                     \
    ENS("[C13.copy-complete] success: dimension records are equal field by field",           \
        IMPL(RET != 0 && src->acquisition_dimensions.size >= 1, DIM_EQ(*dst, *src, 0)) &&     \
          IMPL(RET != 0 && src->acquisition_dimensions.size >= 2, DIM_EQ(*dst, *src, 1)))     \
    ENS("[C13.released-once] block accounting: nothing the destination owned before is "     \
        "leaked, nothing of the source is released",                                          \
        g_live == g_live0 + (BLOCKS(*dst) - g_blocks_dst0) && BLOCKS(*src) == g_blocks_src0)  \
    ENS("[C13.failure-only-on-allocation] copy fails only when an allocation failed",        \
        IMPL(RET == 0, g_alloc_fails))                                                        \
    ASG(*dst, g_live, g_alloc_fails; OWNED(dst->uri) : __CPROVER_object_whole(dst->uri.str);  \
        OWNED(dst->external_metadata_json)                                                    \
        : __CPROVER_object_whole(dst->external_metadata_json.str);                            \
        OWNED(dst->access_key_id) : __CPROVER_object_whole(dst->access_key_id.str);           \
        OWNED(dst->secret_access_key) : __CPROVER_object_whole(dst->secret_access_key.str);   \
        dst->acquisition_dimensions.data != 0                                                 \
        : __CPROVER_object_whole(dst->acquisition_dimensions.data);                           \
        DIM_OWNED_C(*dst, 0) : __CPROVER_object_whole(dst->acquisition_dimensions.data[0].name.str); \
        DIM_OWNED_C(*dst, 1) : __CPROVER_object_whole(dst->acquisition_dimensions.data[1].name.str)) \
    FRE(OWNED(dst->uri) : dst->uri.str; OWNED(dst->external_metadata_json)                    \
        : dst->external_metadata_json.str; OWNED(dst->access_key_id) : dst->access_key_id.str; \
        OWNED(dst->secret_access_key) : dst->secret_access_key.str;                           \
        dst->acquisition_dimensions.data != 0 : dst->acquisition_dimensions.data;             \
        DIM_OWNED_C(*dst, 0) : dst->acquisition_dimensions.data[0].name.str;                    \
        DIM_OWNED_C(*dst, 1) : dst->acquisition_dimensions.data[1].name.str)


/* ---- setters: each is copy_string on one field plus a frame */
#define STRING_SAME(a, b) ((a).str == (b).str && (a).nbytes == (b).nbytes && (a).is_ref == (b).is_ref)
#define SCALARS_SAME(a, b)                                                                    \
    ((a).first_frame_id == (b).first_frame_id && (a).enable_multiscale == (b).enable_multiscale && \
     (a).acquisition_dimensions.data == (b).acquisition_dimensions.data &&                    \
     (a).acquisition_dimensions.size == (b).acquisition_dimensions.size)
#define ARG_STRING_OK(ptr, n) ((ptr) == 0 || (n) == 0 || ((n) <= MAXLEN && __CPROVER_r_ok(ptr, n)))
#define FIELD_IS_COPY(field, ptr, n)                                                          \
    (OWNED(out->field) && out->field.nbytes == (((ptr) && (n)) ? (n) : (size_t)1) &&          \
     out->field.str[out->field.nbytes - 1] == 0 &&                                            \
     (!((ptr) && (n)) || !(g_i + 1 < (n)) || out->field.str[g_i] == g_argbyte0))
static char g_argbyte0;

#define CONTRACT_storage_properties_set_uri(REQ, ENS, ASG, FRE)                               \
    REQ(out != 0 && WF_PROPS(*out) && ARG_STRING_OK(uri, bytes_of_uri))                       \
    ENS("[C13.stored-string-wellformed] well formed afterwards", WF_PROPS(*out))              \
    ENS("[C13.copy-is-deep] success stores an owned, terminated copy of the given bytes",    \
        IMPL(RET != 0, FIELD_IS_COPY(uri, uri, bytes_of_uri)))                                \
    ENS("[C13.only-named-field-changes] nothing else changes",                               \
        STRING_SAME(out->external_metadata_json, g_pd0.external_metadata_json) &&             \
          STRING_SAME(out->access_key_id, g_pd0.access_key_id) &&                             \
          STRING_SAME(out->secret_access_key, g_pd0.secret_access_key) &&                     \
          SCALARS_SAME(*out, g_pd0))                                                          \
    ENS("[C13.released-once] block accounting",                                              \
        g_live == g_live0 + (BLOCKS(*out) - g_blocks_dst0))                                   \
    ENS("[C13.failure-only-on-allocation] fails only when an allocation failed",             \
        IMPL(RET == 0, g_alloc_fails))                                                        \
    ASG()

#define CONTRACT_storage_properties_set_external_metadata(REQ, ENS, ASG, FRE)                 \
    REQ(out != 0 && WF_PROPS(*out) && ARG_STRING_OK(metadata, bytes_of_metadata))             \
    ENS("[C13.stored-string-wellformed] well formed afterwards", WF_PROPS(*out))              \
    ENS("[C13.copy-is-deep] success stores an owned, terminated copy of the given bytes",    \
        IMPL(RET != 0, FIELD_IS_COPY(external_metadata_json, metadata, bytes_of_metadata)))   \
    ENS("[C13.only-named-field-changes] nothing else changes",                               \
        STRING_SAME(out->uri, g_pd0.uri) &&                                                   \
          STRING_SAME(out->access_key_id, g_pd0.access_key_id) &&                             \
          STRING_SAME(out->secret_access_key, g_pd0.secret_access_key) &&                     \
          SCALARS_SAME(*out, g_pd0))                                                          \
    ENS("[C13.released-once] block accounting",                                              \
        g_live == g_live0 + (BLOCKS(*out) - g_blocks_dst0))                                   \
    ASG()

#define CONTRACT_storage_properties_set_access_key_and_secret(REQ, ENS, ASG, FRE)             \
    REQ(out != 0 && WF_PROPS(*out) && ARG_STRING_OK(access_key_id, bytes_of_access_key_id) && \
        ARG_STRING_OK(secret_access_key, bytes_of_secret_access_key))                         \
    ENS("[C13.stored-string-wellformed] well formed afterwards", WF_PROPS(*out))              \
    ENS("[C13.copy-is-deep] success stores owned, terminated copies of both strings",        \
        IMPL(RET != 0,                                                                        \
             FIELD_IS_COPY(access_key_id, access_key_id, bytes_of_access_key_id) &&           \
               OWNED(out->secret_access_key) &&                                               \
               out->secret_access_key.nbytes ==                                               \
                 ((secret_access_key && bytes_of_secret_access_key)                           \
                    ? bytes_of_secret_access_key                                              \
                    : (size_t)1)))                                                            \
    ENS("[C13.only-named-field-changes] nothing else changes",                               \
        STRING_SAME(out->uri, g_pd0.uri) &&                                                   \
          STRING_SAME(out->external_metadata_json, g_pd0.external_metadata_json) &&           \
          SCALARS_SAME(*out, g_pd0))                                                          \
    ENS("[C13.released-once] block accounting",                                              \
        g_live == g_live0 + (BLOCKS(*out) - g_blocks_dst0))                                   \
    ASG()

#define SD_VALID                                                                              \
    (out != 0 && index >= 0 && (size_t)index < g_pd0.acquisition_dimensions.size && name != 0 && \
     bytes_of_name > 0 && name[0] != 0 && (unsigned)kind < DimensionTypeCount)
#define DIMK(p, k) ((p).acquisition_dimensions.data[k])
#define DIM_RECORD_SAME(k)                                                                    \
    (STRING_SAME(DIMK(*out, k).name, g_dim0[k].name) && DIMK(*out, k).kind == g_dim0[k].kind && \
     DIMK(*out, k).array_size_px == g_dim0[k].array_size_px &&                                \
     DIMK(*out, k).chunk_size_px == g_dim0[k].chunk_size_px &&                                \
     DIMK(*out, k).shard_size_chunks == g_dim0[k].shard_size_chunks)
static struct StorageDimension g_dim0[DMAX];
#define CONTRACT_storage_properties_set_dimension(REQ, ENS, ASG, FRE)                         \
    REQ(out == 0 || WF_PROPS(*out))                                                           \
    REQ(name == 0 || bytes_of_name == 0 ||                                                    \
        (bytes_of_name <= MAXLEN && __CPROVER_r_ok(name, bytes_of_name)))                     \
    ENS("[C13.stored-string-wellformed] well formed afterwards",                             \
        out == 0 || WF_PROPS(*out))                                                           \
    ENS("[C13.bad-arguments-rejected] invalid arguments are rejected and change nothing",    \
        IMPL(!SD_VALID, RET == 0 && (out == 0 || ((g_pd0.acquisition_dimensions.size < 1 || DIM_RECORD_SAME(0)) && \
                                                  (g_pd0.acquisition_dimensions.size < 2 || DIM_RECORD_SAME(1))))))  \
    ENS("[C13.copy-is-deep] success stores the record with an owned, terminated copy of "    \
        "the name",                                                                           \
        IMPL(RET != 0,                                                                        \
             SD_VALID && OWNED(DIMK(*out, index).name) &&                                     \
               DIMK(*out, index).name.nbytes == bytes_of_name &&                              \
               DIMK(*out, index).name.str[bytes_of_name - 1] == 0 &&                          \
               (!(g_i + 1 < bytes_of_name) || DIMK(*out, index).name.str[g_i] == g_argbyte0) && \
               DIMK(*out, index).kind == kind && DIMK(*out, index).array_size_px == array_size_px && \
               DIMK(*out, index).chunk_size_px == chunk_size_px &&                            \
               DIMK(*out, index).shard_size_chunks == shard_size_chunks))                     \
    ENS("[C13.only-named-field-changes] the other dimension and all other fields are "       \
        "untouched",                                                                          \
        out == 0 ||                                                                           \
          (STRING_SAME(out->uri, g_pd0.uri) &&                                                \
           STRING_SAME(out->external_metadata_json, g_pd0.external_metadata_json) &&          \
           STRING_SAME(out->access_key_id, g_pd0.access_key_id) &&                            \
           STRING_SAME(out->secret_access_key, g_pd0.secret_access_key) &&                    \
           SCALARS_SAME(*out, g_pd0) &&                                                       \
           (g_pd0.acquisition_dimensions.size < 1 || index == 0 || DIM_RECORD_SAME(0)) &&     \
           (g_pd0.acquisition_dimensions.size < 2 || index == 1 || DIM_RECORD_SAME(1))))      \
    ENS("[C13.released-once] block accounting: a name that is replaced is released",         \
        out == 0 || g_live == g_live0 + (BLOCKS(*out) - g_blocks_dst0))                       \
    ASG()

#define CONTRACT_storage_properties_set_enable_multiscale(REQ, ENS, ASG, FRE)                 \
    REQ(out == 0 || WF_PROPS(*out))                                                           \
    ENS("[C13.only-named-field-changes] only the flag changes",                              \
        out == 0 ? RET == 0                                                                   \
                 : (RET == 1 && out->enable_multiscale == enable &&                           \
                    out->first_frame_id == g_pd0.first_frame_id &&                            \
                    STRING_SAME(out->uri, g_pd0.uri) &&                                       \
                    out->acquisition_dimensions.data == g_pd0.acquisition_dimensions.data &&  \
                    g_live == g_live0))                                                       \
    ASG()

#define CONTRACT_storage_properties_destroy(REQ, ENS, ASG, FRE)                               \
    REQ(self != 0 && WF_PROPS(*self))                                                         \
    ENS("[C13.released-once] destroy releases every owned block exactly once",               \
        g_live == g_live0 - g_blocks_dst0)                                                    \
    ENS("[C13.destroy-leaves-empty] afterwards the object owns nothing and is well formed", \
        BLOCKS(*self) == 0 && WF_PROPS(*self) && self->acquisition_dimensions.data == 0 &&    \
          self->acquisition_dimensions.size == 0)                                             \
    ENS("[C13.borrowed-never-freed] borrowed strings are left alone",                        \
        IMPL(g_pd0.uri.str != 0 && g_pd0.uri.is_ref, STRING_SAME(self->uri, g_pd0.uri)))      \
    ASG()

#define CONTRACT_storage_properties_init(REQ, ENS, ASG, FRE)                                  \
    REQ(out != 0 && ARG_STRING_OK(uri, bytes_of_uri) &&                                       \
        ARG_STRING_OK(metadata, bytes_of_metadata) && dimension_count <= DMAX)                \
    ENS("[C13.stored-string-wellformed] init leaves a well-formed object, also on failure", \
        WF_PROPS(*out))                                                                       \
    ENS("[C13.copy-is-deep] success: uri and metadata are owned terminated copies, scalars " \
        "are stored, the dimension array has dimension_count zeroed entries",                 \
        IMPL(RET != 0,                                                                        \
             FIELD_IS_COPY(uri, uri, bytes_of_uri) && OWNED(out->external_metadata_json) &&   \
               out->first_frame_id == first_frame_id &&                                       \
               out->pixel_scale_um.x == pixel_scale_um.x &&                                   \
               out->pixel_scale_um.y == pixel_scale_um.y &&                                   \
               out->acquisition_dimensions.size == dimension_count &&                         \
               IFF(dimension_count > 0, out->acquisition_dimensions.data != 0) &&             \
               (dimension_count < 1 || DIMK(*out, 0).name.str == 0) &&                        \
               (dimension_count < 2 || DIMK(*out, 1).name.str == 0) &&                        \
               out->access_key_id.str == 0 && out->secret_access_key.str == 0))               \
    ENS("[C13.released-once] block accounting: every block allocated is owned by the object",\
        g_live == g_live0 + BLOCKS(*out))                                                     \
    ASG()

#ifndef VERIF_NATIVE
static int
copy_string(struct String* dst, const struct String* src) DFCC_CONTRACT(copy_string);
int
storage_properties_copy(struct StorageProperties* dst, const struct StorageProperties* src)
  DFCC_CONTRACT(storage_properties_copy);
int
stub_copy_string(struct String* dst, const struct String* src)
  DFCC_CONTRACT_AS(stub_copy_string, copy_string);
#endif

#include "device/props/storage.c"

/* Stub contract of copy_string for the units that verify its callers (selected with
 * goto-instrument --replace-calls copy_string:stub_copy_string).  It is the most general
 * behaviour CONTRACT_copy_string allows: precondition asserted at the call site, any
 * allocation may fail, an owned block that is large enough is reused or replaced at will,
 * the result is an owned, terminated block of the source's length whose ghost-indexed
 * byte equals the source's.  props.copy_string proves the real function against that
 * contract; props.copy_string_stub proves this stub against the same contract. */
int
stub_copy_string(struct String* dst, const struct String* src)
{
    VASSERT(dst != 0 && WF_STRING(*dst),
            "[C13.callsite-wellformed] copy_string is called on a well-formed destination");
    int empty = !(src && src->str && src->nbytes);
    size_t n = empty ? 1 : src->nbytes;
    char c = 0;
    if (!empty) {
        VASSERT(__CPROVER_r_ok(src->str, src->nbytes),
                "[C13.source-untouched,C13.callsite-source-alive] copy_string reads a source "
                "string that is still allocated");
        VASSERT(!OWNED(*dst) || !__CPROVER_same_object(src->str, dst->str),
                "[C13.shares-no-memory] source and destination blocks are distinct");
        if (g_i < n)
            c = src->str[g_i];
    }
    if (nd_bool()) { /* an allocation fails */
        g_alloc_fails = 1;
        if (!OWNED(*dst))
            dst->str = 0;
        return 0;
    }
    if (OWNED(*dst) && n <= dst->nbytes && nd_bool()) {
        /* reuse the block */
    } else {
        char* q = (malloc)(n);
        VASSUME(q != 0);
        if (OWNED(*dst))
            (free)(dst->str);
        else
            g_live++;
        dst->str = q;
        dst->is_ref = 0;
    }
    dst->nbytes = n;
    if (!empty && g_i + 1 < n)
        dst->str[g_i] = c;
    dst->str[n - 1] = 0;
    return 1;
}

/* ================================================================== harnesses */
static char* g_borrowed; /* caller-owned bytes used for borrowed strings */

/* an arbitrary well-formed String; cap_bound limits block sizes in the bounded units */
static void
arb_string(struct String* s, size_t cap_bound)
{
    unsigned kind = nd_uchar();
    s->nbytes = nd_ulong();
    s->is_ref = nd_uchar();
    if (kind % 3 == 0) {
        s->str = 0;
    } else if (kind % 3 == 1) {
        /* borrowed: caller memory, arbitrary contents, not necessarily terminated */
        VASSUME(s->nbytes >= 1 && s->nbytes <= cap_bound);
        s->is_ref = 1;
        s->str = (malloc)(s->nbytes);
        VASSUME(s->str != 0);
    } else {
        size_t cap = nd_ulong();
        VASSUME(s->nbytes >= 1 && s->nbytes <= cap && cap <= cap_bound);
        s->is_ref = 0;
        s->str = (malloc)(cap);
        VASSUME(s->str != 0);
        s->str[s->nbytes - 1] = 0;
        g_live++;
    }
}

void
h_copy_string(void)
{
    g_live = 0;
    g_alloc_fails = 0;
    struct String d, sv;
    arb_string(&d, MAXLEN);
    struct String* dst = &d;
    const struct String* src = &sv;
    unsigned kind = nd_uchar();
    sv.is_ref = nd_uchar();
    sv.nbytes = nd_ulong();
    if (kind % 4 == 0) {
        src = 0;
    } else if (kind % 4 == 1) {
        sv.str = 0;
    } else {
        VASSUME(sv.nbytes <= MAXLEN);
        sv.str = (malloc)(sv.nbytes ? sv.nbytes : 1);
        VASSUME(sv.str != 0);
    }
    g_i = nd_ulong();
    g_src_is_null = !(src && src->str && src->nbytes);
    g_srcbyte0 = 0;
    if (!g_src_is_null) {
        VASSUME(g_i < sv.nbytes);
        g_srcbyte0 = sv.str[g_i];
    }
    g_dst0 = d;
    if (src)
        g_src0 = sv;
    g_live0 = g_live;
    int ret;
#ifdef CHECK_THE_STUB
    H_CALL(copy_string, ret = stub_copy_string(dst, src));
#else
    H_CALL(copy_string, ret = copy_string(dst, src));
#endif
    if (!g_src_is_null)
        VASSERT(sv.str[g_i] == g_srcbyte0, "[C13.source-untouched] the source bytes are unchanged and still readable");
    VCOVER(ret && OWNED(g_dst0) && d.str != g_dst0.str, "owned destination grown by realloc");
    VCOVER(ret && OWNED(g_dst0) && d.str == g_dst0.str && d.nbytes < g_dst0.nbytes, "owned destination reused for a shorter string");
    VCOVER(ret && g_dst0.str != 0 && g_dst0.is_ref, "borrowed destination replaced");
    VCOVER(ret && g_src_is_null && src != 0, "empty source");
    VCOVER(!ret, "allocation failure");
    VCOVER(ret && !g_src_is_null && sv.nbytes > 1 && sv.str[sv.nbytes - 1] != 0, "source not terminated");
    H_END;
}

#define HCAP 2 /* block size in the array-walking units (labelled bounded) */
/* a small well-formed String for the units that walk whole StorageProperties objects:
 * NULL, or an owned block of exactly HCAP bytes holding a 1- or 2-byte string. (Borrowed
 * and long strings are covered, unbounded, by props.copy_string.) */
static void
arb_small_string(struct String* s, size_t unused)
{
    s->nbytes = 0;
    s->is_ref = 0;
    s->str = 0;
    if (nd_bool()) {
        s->nbytes = nd_bool() ? 1 : 2;
        s->str = (malloc)(HCAP);
        VASSUME(s->str != 0);
        s->str[0] = (char)(nd_uchar() & 0x7f);
        s->str[1] = 0;
        s->str[s->nbytes - 1] = 0;
        g_live++;
    }
}
#define arb_pstring arb_small_string
/* the array-walking units are case-split on the dimension counts (a symbolic count made
 * CBMC run out of memory): -DND_DST=k -DND_SRC=m */
static int g_ndim_fixed = -1;
#ifndef ND_DST
#define ND_DST -1
#endif
#ifndef ND_SRC
#define ND_SRC -1
#endif
static void
arb_props(struct StorageProperties* p)
{
    arb_pstring(&p->uri, HCAP);
    arb_pstring(&p->external_metadata_json, HCAP);
    arb_pstring(&p->access_key_id, HCAP);
    arb_pstring(&p->secret_access_key, HCAP);
    p->first_frame_id = nd_uint();
    p->pixel_scale_um.x = (double)nd_int();
    p->pixel_scale_um.y = (double)nd_int();
    p->enable_multiscale = nd_uchar();
    /* literal counts (see h_storage_properties_init) */
    size_t n;
    if (g_ndim_fixed == 0)
        n = 0;
    else if (g_ndim_fixed == 1)
        n = 1;
    else if (g_ndim_fixed == 2)
        n = 2;
    else {
        n = nd_uchar();
        VASSUME(n <= DMAX);
    }
    p->acquisition_dimensions.size = n;
    p->acquisition_dimensions.data = 0;
    if (n) {
        p->acquisition_dimensions.data = (malloc)(n * sizeof(struct StorageDimension));
        VASSUME(p->acquisition_dimensions.data != 0);
        g_live++;
        arb_pstring(&p->acquisition_dimensions.data[0].name, HCAP);
        p->acquisition_dimensions.data[0].kind = (enum DimensionType)nd_uchar();
        p->acquisition_dimensions.data[0].array_size_px = nd_uint();
        p->acquisition_dimensions.data[0].chunk_size_px = nd_uint();
        p->acquisition_dimensions.data[0].shard_size_chunks = nd_uint();
        if (n > 1) {
            arb_pstring(&p->acquisition_dimensions.data[1].name, HCAP);
            p->acquisition_dimensions.data[1].kind = (enum DimensionType)nd_uchar();
            p->acquisition_dimensions.data[1].array_size_px = nd_uint();
            p->acquisition_dimensions.data[1].chunk_size_px = nd_uint();
            p->acquisition_dimensions.data[1].shard_size_chunks = nd_uint();
        }
    }
}

static struct StorageProperties g_pd, g_ps;

void
h_storage_properties_copy(void)
{
    g_live = 0;
    g_alloc_fails = 0;
    g_ndim_fixed = ND_DST;
    arb_props(&g_pd);
    g_ndim_fixed = ND_SRC;
    arb_props(&g_ps);
    struct StorageProperties* dst = &g_pd;
    const struct StorageProperties* src = &g_ps;
    g_i = nd_ulong();
    VASSUME(g_i < MAXLEN);
    g_pd0 = g_pd;
    g_ps0 = g_ps;
    g_blocks_dst0 = BLOCKS(g_pd);
    g_blocks_src0 = BLOCKS(g_ps);
    g_live0 = g_live;
    int ret;
    H_CALL(storage_properties_copy, ret = storage_properties_copy(dst, src));
    /* the source's memory is still alive and readable */
    if (g_ps.uri.str && g_ps.uri.nbytes)
        VASSERT(g_ps.uri.str[0] == g_ps.uri.str[0], "[C13.source-untouched] source uri still readable");
    if (g_ps.acquisition_dimensions.data) {
        VASSERT(g_ps.acquisition_dimensions.data[0].kind == g_ps.acquisition_dimensions.data[0].kind,
                "[C13.source-untouched] source dimension array still readable");
        if (g_ps.acquisition_dimensions.data[0].name.str)
            VASSERT(g_ps.acquisition_dimensions.data[0].name.str[0] == g_ps.acquisition_dimensions.data[0].name.str[0],
                    "[C13.source-untouched] source dimension name still readable");
    }
    if (ret) {
        VASSERT(STR_EQ_AT(g_pd.uri, g_ps.uri) || !(g_ps.uri.str && g_ps.uri.nbytes),
                "[C13.copy-complete] uri equal by content");
        /* every string field, by content (ghost byte index g_i); an empty or NULL source
         * string becomes the one-byte empty string */
#define COPIED_STRING(f)                                                                       \
    ((g_ps.f.str && g_ps.f.nbytes) ? STR_EQ_AT(g_pd.f, g_ps.f)                                 \
                                   : (g_pd.f.str != 0 && g_pd.f.nbytes == 1 && g_pd.f.str[0] == 0))
        VASSERT(COPIED_STRING(external_metadata_json), "[C13.copy-complete] external metadata equal by content");
        VASSERT(COPIED_STRING(access_key_id), "[C13.copy-complete] access key id equal by content");
        VASSERT(COPIED_STRING(secret_access_key), "[C13.copy-complete] secret access key equal by content");
        if (g_ps.acquisition_dimensions.size >= 1)
            VASSERT(COPIED_STRING(acquisition_dimensions.data[0].name), "[C13.copy-complete] name of dimension 0 equal by content");
        if (g_ps.acquisition_dimensions.size >= 2)
            VASSERT(COPIED_STRING(acquisition_dimensions.data[1].name), "[C13.copy-complete] name of dimension 1 equal by content");
#undef COPIED_STRING
        if (g_ps.acquisition_dimensions.size >= 1 && g_ps.acquisition_dimensions.data[0].name.str &&
            g_ps.acquisition_dimensions.data[0].name.nbytes)
            VASSERT(g_pd.acquisition_dimensions.data[0].name.nbytes == g_ps.acquisition_dimensions.data[0].name.nbytes &&
                      g_pd.acquisition_dimensions.data[0].name.str != g_ps.acquisition_dimensions.data[0].name.str,
                    "[C13.copy-complete,C13.shares-no-memory] dimension name copied into a different block");
    }
    VCOVER(ret && g_ps0.acquisition_dimensions.size == ND_SRC && g_pd0.acquisition_dimensions.size == ND_DST, "copy succeeds for this pair of dimension counts");
    VCOVER(ret && OWNED(g_pd0.uri) && OWNED(g_ps0.uri), "owned uri over owned uri");
    VCOVER(!ret, "allocation failure");
    H_END;
}

static void
save_old(void)
{
    g_pd0 = g_pd;
    g_blocks_dst0 = BLOCKS(g_pd);
    g_live0 = g_live;
    if (g_pd.acquisition_dimensions.size >= 1)
        g_dim0[0] = g_pd.acquisition_dimensions.data[0];
    if (g_pd.acquisition_dimensions.size >= 2)
        g_dim0[1] = g_pd.acquisition_dimensions.data[1];
}

/* a caller-supplied byte string: NULL, or a block of exactly n bytes (not necessarily
 * terminated); n may also be passed as 0 */
static const char*
arb_arg(size_t* n)
{
    *n = nd_ulong();
    if (nd_bool())
        return 0;
    VASSUME(*n <= MAXLEN);
    char* p = (malloc)(*n ? *n : 1);
    VASSUME(p != 0);
    g_argbyte0 = 0;
    if (g_i < *n)
        g_argbyte0 = p[g_i];
    return p;
}

#define SETTER_PROLOGUE                                                        \
    g_live = 0;                                                                \
    g_alloc_fails = 0;                                                         \
    g_ndim_fixed = ND_DST;                                                     \
    arb_props(&g_pd);                                                          \
    g_i = nd_ulong();                                                          \
    VASSUME(g_i < MAXLEN);                                                     \
    struct StorageProperties* out = &g_pd

void
h_storage_properties_set_uri(void)
{
    SETTER_PROLOGUE;
    size_t bytes_of_uri;
    const char* uri = arb_arg(&bytes_of_uri);
    save_old();
    int ret;
    H_CALL(storage_properties_set_uri, ret = storage_properties_set_uri(out, uri, bytes_of_uri));
    VCOVER(ret && OWNED(g_pd0.uri) && uri && bytes_of_uri > 2, "replace an owned uri by a longer one");
    VCOVER(ret && !uri, "NULL uri stores the empty string");
    VCOVER(!ret, "allocation failure");
    H_END;
}

void
h_storage_properties_set_external_metadata(void)
{
    SETTER_PROLOGUE;
    size_t bytes_of_metadata;
    const char* metadata = arb_arg(&bytes_of_metadata);
    save_old();
    int ret;
    H_CALL(storage_properties_set_external_metadata,
           ret = storage_properties_set_external_metadata(out, metadata, bytes_of_metadata));
    VCOVER(ret && metadata && bytes_of_metadata > 2, "long metadata");
    H_END;
}

void
h_storage_properties_set_access_key_and_secret(void)
{
    SETTER_PROLOGUE;
    size_t bytes_of_access_key_id, bytes_of_secret_access_key;
    const char* secret_access_key = arb_arg(&bytes_of_secret_access_key);
    const char* access_key_id = arb_arg(&bytes_of_access_key_id);
    save_old();
    int ret;
    H_CALL(storage_properties_set_access_key_and_secret,
           ret = storage_properties_set_access_key_and_secret(
             out, access_key_id, bytes_of_access_key_id, secret_access_key, bytes_of_secret_access_key));
    VCOVER(ret && access_key_id && secret_access_key, "both given");
    VCOVER(!ret && OWNED(g_pd.access_key_id), "second allocation fails");
    H_END;
}

void
h_storage_properties_set_dimension(void)
{
    SETTER_PROLOGUE;
    if (nd_bool())
        out = 0;
    int index = nd_int();
    size_t bytes_of_name;
    const char* name = arb_arg(&bytes_of_name);
    enum DimensionType kind = (enum DimensionType)nd_uchar();
    uint32_t array_size_px = nd_uint(), chunk_size_px = nd_uint(), shard_size_chunks = nd_uint();
    save_old();
    int ret;
    H_CALL(storage_properties_set_dimension,
           ret = storage_properties_set_dimension(
             out, index, name, bytes_of_name, kind, array_size_px, chunk_size_px, shard_size_chunks));
#if ND_DST == 2
    VCOVER(ret && index == 1 && OWNED(g_dim0[1].name), "overwrite a dimension that already has a name");
#endif
#if ND_DST >= 1
    VCOVER(ret && name[bytes_of_name - 1] != 0, "name not terminated within bytes_of_name");
    VCOVER(!ret && SD_VALID, "allocation failure");
#endif
    VCOVER(!ret && out && index < 0, "negative index");
    H_END;
}

void
h_storage_properties_set_enable_multiscale(void)
{
    SETTER_PROLOGUE;
    if (nd_bool())
        out = 0;
    uint8_t enable = nd_uchar();
    save_old();
    int ret;
    H_CALL(storage_properties_set_enable_multiscale, ret = storage_properties_set_enable_multiscale(out, enable));
    H_END;
}

void
h_storage_properties_destroy(void)
{
    SETTER_PROLOGUE;
    struct StorageProperties* self = out;
    /* destroy is also reached with borrowed strings (stack properties of clients) */
    if (nd_bool() && !g_pd.uri.str) {
        g_pd.uri.str = "borrowed";
        g_pd.uri.nbytes = 9;
        g_pd.uri.is_ref = 1;
    }
    save_old();
    H_CALL(storage_properties_destroy, storage_properties_destroy(self));
#if ND_DST > 0
    VCOVER(g_blocks_dst0 == 4 + 1 + ND_DST, "everything owned");
#else
    VCOVER(g_blocks_dst0 == 0, "nothing owned");
#endif
    H_END;
}

void
h_storage_properties_init(void)
{
    g_live = 0;
    g_alloc_fails = 0;
    g_i = nd_ulong();
    VASSUME(g_i < MAXLEN);
    /* out is uninitialised memory */
    struct StorageProperties* out = (malloc)(sizeof(*out));
    VASSUME(out != 0);
    uint32_t first_frame_id = nd_uint();
    size_t bytes_of_uri, bytes_of_metadata;
    const char* metadata = arb_arg(&bytes_of_metadata);
    const char* uri = arb_arg(&bytes_of_uri);
    struct PixelScale pixel_scale_um = { .x = (double)nd_int(), .y = (double)nd_int() };
    /* a literal: CBMC's memset/malloc models mis-handle a symbolic element count (observed:
     * memset(p, 0, n * sizeof(T)) with symbolic n leaves element 1 unconstrained) */
#if ND_DST >= 0
    uint8_t dimension_count = ND_DST;
#else
    uint8_t dimension_count = nd_uchar();
#endif
    g_live0 = g_live;
    int ret;
    H_CALL(storage_properties_init,
           ret = storage_properties_init(
             out, first_frame_id, uri, bytes_of_uri, metadata, bytes_of_metadata, pixel_scale_um, dimension_count));
    VCOVER(ret && dimension_count == ND_DST, "success with this dimension count");
    VCOVER(!ret, "allocation failure");
    H_END;
}
