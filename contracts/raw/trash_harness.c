/* C16/C05: the real /repo/acquire-driver-common/src/storage/trash.c (#included
 * unmodified). Its frame-walking loop is checked on packets of up to K frames of
 * arbitrary sizes: a bounded stand-in, reported as such. */
#include "verif.h"
#include "device/props/storage.h"
#include "device/kit/storage.h"
#include "device/props/components.h"
#include "platform.h"
#include <stdlib.h>
#include <string.h>

void
aq_logger(int is_error, const char* file, int line, const char* function, const char* fmt, ...)
{
}

static int g_copy_ok;
int
storage_properties_copy(struct StorageProperties* dst, const struct StorageProperties* src)
{
    g_copy_ok = nd_bool();
    if (g_copy_ok)
        dst->first_frame_id = src->first_frame_id;
    return g_copy_ok;
}

#include "storage/trash.c"

#ifndef K
#define K 4
#endif
static struct Trash* g_t;
static uint64_t g_iframe0;
static unsigned g_nframes;
static size_t g_total;

#define CONTRACT_trash_append(REQ, ENS, ASG, FRE)                                             \
    REQ(self_ == &g_t->writer && frames != 0 && nbytes != 0 && *nbytes == g_total)            \
    ENS("[C16.failure-is-reported] trash never fails: it stays Running and consumes the "   \
        "whole packet", RET == DeviceState_Running && *nbytes == g_total)                     \
    ENS("[C05.chain-walk-lands-on-packet-end] stepping by bytes_of_frame visits exactly the "\
        "frames of the packet", g_t->iframe == g_iframe0 + g_nframes)                         \
    ASG()

void
h_trash_append(void)
{
    struct Storage* self_ = trash_init();
    VASSUME(self_ != 0);
    g_t = containerof(self_, struct Trash, writer);
    g_t->iframe = nd_ulong();
    VASSUME(g_t->iframe < ((uint64_t)1 << 62));
    g_iframe0 = g_t->iframe;
    g_nframes = nd_uchar();
    VASSUME(g_nframes <= K);
    size_t sz[K];
    g_total = 0;
    for (unsigned i = 0; i < K; ++i) {
        sz[i] = nd_ulong();
        VASSUME(sz[i] >= sizeof(struct VideoFrame) && sz[i] <= (1u << 20) && sz[i] % 8 == 0);
        if (i < g_nframes)
            g_total += sz[i];
    }
    uint8_t* buf = malloc(g_total ? g_total : 1);
    VASSUME(buf != 0);
    size_t off = 0;
    for (unsigned i = 0; i < K; ++i) {
        if (i < g_nframes) {
            ((struct VideoFrame*)(buf + off))->bytes_of_frame = sz[i];
            off += sz[i];
        }
    }
    const struct VideoFrame* frames = (const struct VideoFrame*)buf;
    size_t nb = g_total;
    size_t* nbytes = &nb;
    enum DeviceState ret;
    H_CALL(trash_append, ret = trash_append(self_, frames, nbytes));
    VCOVER(g_nframes == K, "K frames");
    VCOVER(g_nframes == 0, "empty packet");
    H_END;
}

/* the remaining entry points: no descriptors, no I/O */
void
h_trash_lifecycle(void)
{
    struct Storage* s = trash_init();
    VASSUME(s != 0);
    VASSERT(s->state == DeviceState_AwaitingConfiguration, "[C11.state-follows-driver] new device awaits configuration");
    struct StorageProperties p;
    memset(&p, 0, sizeof(p));
    p.first_frame_id = nd_uint();
    enum DeviceState st = s->set(s, &p);
    VASSERT(st == (g_copy_ok ? DeviceState_Armed : DeviceState_AwaitingConfiguration),
            "[C16.failure-is-reported] set answers Armed iff the properties were copied");
    st = s->start(s);
    VASSERT(st == DeviceState_Running, "[C16.failure-is-reported] trash start cannot fail");
    st = s->stop(s);
    VASSERT(st == DeviceState_Armed, "[C11.state-follows-driver] stop answers Armed");
    s->destroy(s);
    H_END;
}
