#!/bin/bash
# usage: trymutant.sh <patch.diff> <prop> [<prop>...]   -- applies the patch to /repo, runs the quick checks, reverts
patch=$1; shift
git -C /repo apply "$patch" || { echo "patch does not apply"; exit 3; }
for p in "$@"; do
  /verif/check $p --no-evidence 2>&1 | grep -v "^$" | tail -6
done
git -C /repo checkout -- .
