#!/bin/bash
# usage: confirm_mutant.sh <worktree>  -- rebuild the worktree (mutant applied), run the full suite, log to <worktree>/CONFIRM.log
wt=$1
log=$wt/CONFIRM.log
{
  echo "== confirm $(date) in $wt"
  git -C $wt status --short | grep -v MUTANT | head
  cmake -G Ninja -S $wt -B $wt/_b -DCMAKE_BUILD_TYPE=Release >/dev/null 2>&1 && cmake --build $wt/_b -j8 2>&1 | tail -2
  echo "== ctest"
  ctest --test-dir $wt/_b -j4 --timeout 900 2>&1 | tail -12
  echo "== done $(date)"
} > $log 2>&1
rm -rf $wt/_b
