#ifndef SINK_SPEC_H
#define SINK_SPEC_H
#define SINK_FRAME_OK(s)                                                                      \
    ((s)->storage == g_sto && (s)->sig_stop_source == cb_sig_stop_source)
/* facts that hold at the head of every loop of video_sink_thread */
#define SINK_LOOP_INV(s)                                                                      \
    ((s) == &g_sink && SINK_FRAME_OK(s) && (s)->is_running == 1 && !kg.mapped &&              \
     kg.appended == kg.consumed && !kg.out_of_order && kg.consumed <= kg.committed &&         \
     kg.committed <= (1UL << 51) && !kg.append_failed && kg.n_append_after_failure == 0 && \
     kg.n_sig_stop_source == 0 && kg.n_storage_stop == 0 &&                                   \
     (!(s)->is_stopping || g_producer_done))
#endif
