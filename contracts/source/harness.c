/* C04/C05/C07/C09 (source side): the real /repo/acquire-video-runtime/src/runtime/source.c
 * (#included unmodified) against stub contracts of the channel (enforced in
 * contracts/channel), of the camera HAL (enforced in contracts/hal), of bytes_of_image
 * (enforced in contracts/runtime_misc) and of the clock. The main loop of
 * video_source_thread is closed by an external loop contract; self->is_stopping is in
 * its assigns set, so the flag other threads write is re-havocked in every iteration. */
#include "verif.h"
#include "runtime/source.h"
#include "device/hal/camera.h"
#include "device/props/components.h"

#include <stdlib.h>
#include <string.h>
#ifdef VERIF_NATIVE
#include <sys/mman.h>
#endif

void
aq_logger(int is_error, const char* file, int line, const char* function, const char* fmt, ...)
{
}
const char*
device_state_as_string(enum DeviceState s)
{
    return "state";
}

#define SHAPE_EQ(a, b)                                                         \
    ((a).dims.channels == (b).dims.channels && (a).dims.width == (b).dims.width && \
     (a).dims.height == (b).dims.height && (a).dims.planes == (b).dims.planes && \
     (a).strides.channels == (b).strides.channels &&                           \
     (a).strides.width == (b).strides.width &&                                 \
     (a).strides.height == (b).strides.height &&                               \
     (a).strides.planes == (b).strides.planes && (a).type == (b).type)
#define HDR sizeof(struct VideoFrame)
#define ALIGN8(n) (8 * (((n) + 7) / 8))
#define SZ_MAX ((size_t)1 << 40)

/* ------------------------------------------------------------------ ghost */
static struct src_ghost
{
    /* channel side */
    unsigned long committed;   /* frames committed so far                               */
    int pending;               /* a write region is mapped and not yet committed/aborted */
    uint8_t* region;           /* the mapped region                                      */
    size_t region_n;
    struct channel* region_ch;
    unsigned long n_map, n_abort;
    /* camera side */
    int cam_started;           /* HAL typestate: running                                  */
    int cam_failed;            /* a camera call failed in this acquisition               */
    int n_cam_stop;
    struct ImageShape shape;   /* shape reported for the current iteration               */
    size_t sz;                 /* bytes_of_image(shape)                                  */
    uint64_t hw_id, hw_ts;     /* what get_frame reported for the current frame          */
    int frame_filled;          /* get_frame succeeded with a non-empty frame             */
    size_t px;                 /* ghost pixel index                                       */
    uint8_t px_byte;           /* the byte the camera wrote there                        */
    /* signalling */
    int n_sig_filter, n_sig_sink, n_await;
    int commit_after_signal;
    int commit_after_failure;
    uint64_t tic;
} sg;

static struct channel g_to_sink, g_to_filter;
#define REGION_CAP (ALIGN8(HDR + SZ_MAX))
static uint8_t* g_region; /* never reassigned after the harness allocated it */
static size_t g_region_cap; /* symbolic ring capacity */
static struct Camera* g_cam = (struct Camera*)0x1000; /* opaque: never dereferenced here */

/* ------------------------------------------------------------------ stub contracts */
enum DeviceStatusCode
camera_get_image_shape(const struct Camera* self, struct ImageShape* shape)
{
    VASSERT(self == g_cam && shape != 0, "[C08.camera-owned-by-source] get_image_shape on the stream's camera");
    if (nd_bool()) {
        sg.cam_failed = 1;
        return Device_Err;
    }
    shape->dims.channels = nd_uint();
    shape->dims.width = nd_uint();
    shape->dims.height = nd_uint();
    shape->dims.planes = nd_uint();
    shape->strides.channels = nd_long();
    shape->strides.width = nd_long();
    shape->strides.height = nd_long();
    shape->strides.planes = nd_long();
    shape->type = (enum SampleType)nd_uchar();
    sg.shape = *shape;
    return Device_Ok;
}

size_t
bytes_of_image(const struct ImageShape* const shape)
{
    /* contract of bytes_of_image: a function of the shape (enforced separately); sizes are
     * bounded by the machine-arithmetic assumption of the evidence */
    size_t n = nd_ulong();
    VASSUME(n <= SZ_MAX);
    sg.sz = n;
    return n;
}

void*
channel_write_map(struct channel* self, size_t nbytes)
{
    VASSERT(self == &g_to_sink || self == &g_to_filter, "[C04.streams-do-not-mix] the source writes only into its own stream's channels");
    VASSERT(!sg.pending, "[C02.single-writer] a second region is mapped before the first was committed or aborted");
    VASSERT(nbytes % 8 == 0, "[C05.write-sizes-multiple-of-8] every write request is a multiple of 8 bytes");
    VASSERT(nbytes == ALIGN8(HDR + sg.sz), "[C05.size-is-header-plus-image-rounded] the request is header + image bytes rounded up to 8");
    sg.n_map++;
    if (nd_bool())
        return 0; /* refused or too large */
    /* one pre-allocated buffer stands for the ring memory (no allocation inside the
     * contract-instrumented loop); its contents are whatever earlier laps left there */
    if (nbytes >= g_region_cap)
        return 0; /* contract of channel_write_map: a request not below the capacity gets no region */
    uint8_t* p = g_region;
    sg.pending = 1;
    sg.region = p;
    sg.region_n = nbytes;
    sg.region_ch = self;
    sg.frame_filled = 0;
    return p;
}

void
channel_abort_write(struct channel* self)
{
    VASSERT(sg.pending && self == sg.region_ch, "[C02.single-writer] abort of a region that is not mapped");
    sg.pending = 0;
    sg.n_abort++;
}

void
channel_write_unmap(struct channel* self)
{
    VASSERT(self == sg.region_ch, "[C02.single-writer] unmap on the channel that was mapped");
    if (!sg.pending)
        return; /* unmap after abort commits nothing (contract of channel_write_unmap) */
    sg.pending = 0;
    /* a frame is committed: inspect it the way a reader will see it */
    const struct VideoFrame* f = (const struct VideoFrame*)sg.region;
    VASSERT(sg.n_sig_filter == 0 && sg.n_sig_sink == 0, "[C04.signals-after-last-commit] no frame is committed after the stop signals");
    VASSERT(!sg.cam_failed, "[C09.no-commit-after-failure] nothing is committed after a camera failure");
    VASSERT(sg.frame_filled, "[C04.only-filled-frames-committed] only a frame the camera filled is committed");
    VASSERT(f->frame_id == sg.committed, "[C04.ids-consecutive-from-0] frame ids count the committed frames from 0");
    VASSERT(f->bytes_of_frame == sg.region_n, "[C05.size-field-is-write-size] bytes_of_frame equals the committed write size");
    VASSERT(f->bytes_of_frame == ALIGN8(HDR + sg.sz) && f->bytes_of_frame % 8 == 0, "[C05.size-is-header-plus-image-rounded] bytes_of_frame is header + image bytes rounded up to 8");
    VASSERT(SHAPE_EQ(f->shape, sg.shape), "[C05.shape-as-reported,C04.shape-unchanged] the header carries the shape the camera reported");
    VASSERT(f->hardware_frame_id == sg.hw_id && f->timestamps.hardware == sg.hw_ts, "[C04.hardware-id-unchanged] hardware frame id and timestamp are the camera's");
    VASSERT(sg.px >= sg.sz || f->data[sg.px] == sg.px_byte, "[C04.pixels-unchanged] the pixel bytes are exactly what the camera wrote");
    sg.committed++;
}

enum DeviceStatusCode
camera_get_frame(struct Camera* self, void* im, size_t* nbytes, struct ImageInfo* info)
{
    VASSERT(self == g_cam, "[C08.camera-owned-by-source] get_frame on the stream's camera");
    VASSERT(sg.pending && im == (void*)(sg.region + HDR), "[C04.frame-into-mapped-region] the camera writes behind the header of the mapped region");
    VASSERT(*nbytes == sg.sz && HDR + *nbytes <= sg.region_n, "[C17.frame-fits-region] the image fits the mapped region");
    if (!sg.cam_started || nd_bool()) {
        /* HAL contract (hal.camera_get_frame): a failed frame call has stopped the camera */
        sg.cam_failed = 1;
        sg.cam_started = 0;
        return Device_Err;
    }
    if (nd_bool()) {
        *nbytes = 0; /* no frame this time (camera stopped under us) */
        return Device_Ok;
    }
    info->shape = sg.shape; /* camera contract (C17): the frame has the reported shape */
    info->hardware_frame_id = sg.hw_id = nd_ulong();
    info->hardware_timestamp = sg.hw_ts = nd_ulong();
    if (sg.px < sg.sz) {
        sg.px_byte = nd_uchar();
        ((uint8_t*)im)[sg.px] = sg.px_byte;
    }
    sg.frame_filled = 1;
    return Device_Ok;
}

enum DeviceStatusCode
camera_stop(struct Camera* self)
{
    VASSERT(self == g_cam, "[C08.camera-owned-by-source] stop on the stream's camera");
    if (sg.n_cam_stop < 2)
        sg.n_cam_stop++;
    sg.cam_started = 0;
    return nd_bool() ? Device_Ok : Device_Err;
}

uint64_t
clock_tic(struct clock* clock)
{
    return sg.tic = nd_ulong();
}

/* functions of source.c that this harness does not exercise still need their callees */
struct Camera*
camera_open(const struct DeviceManager* system, const struct DeviceIdentifier* identifier)
{
    return 0;
}
void
camera_close(struct Camera* self)
{
}
enum DeviceStatusCode
camera_set(struct Camera* self, struct CameraProperties* settings)
{
    return Device_Err;
}
enum DeviceStatusCode
camera_get(const struct Camera* self, struct CameraProperties* settings)
{
    return Device_Err;
}
enum DeviceStatusCode
camera_start(struct Camera* self)
{
    return Device_Err;
}
enum DeviceState
camera_get_state(const struct Camera* const camera)
{
    return DeviceState_Closed;
}
void
thread_init(struct thread* self)
{
}
uint8_t
thread_create(struct thread* self, void (*proc)(void*), void* args)
{
    return 0;
}
void
thread_join(struct thread* self)
{
}

static void
cb_await_filter_reset(const struct video_source_s* s)
{
    VASSERT(!sg.pending, "[C10.reset-between-frames] the filter reset is awaited between frames, not inside a mapped write");
    if (sg.n_await < 2)
        sg.n_await++;
}
static void
cb_sig_stop_filter(const struct video_source_s* s)
{
    if (sg.n_sig_filter < 2)
        sg.n_sig_filter++;
}
static void
cb_sig_stop_sink(const struct video_source_s* s)
{
    if (sg.n_sig_sink < 2)
        sg.n_sig_sink++;
}

/* ================================================================== real code */
#include "runtime/source.c"

static struct video_source_s g_src;
static uint64_t g_max0;

#define SRC_FRAME_OK(s)                                                                       \
    ((s)->camera == g_cam && (s)->to_sink == &g_to_sink && (s)->to_filter == &g_to_filter &&  \
     (s)->await_filter_reset == cb_await_filter_reset &&                                      \
     (s)->sig_stop_filter == cb_sig_stop_filter && (s)->sig_stop_sink == cb_sig_stop_sink &&  \
     (s)->max_frame_count == g_max0)

#define CONTRACT_video_source_thread(REQ, ENS, ASG, FRE)                                      \
    REQ(self == &g_src && SRC_FRAME_OK(self) && self->is_running == 1)                        \
    ENS("[C04.count-bounded] at most max_frame_count frames are committed",                  \
        sg.committed <= g_max0)                                                               \
    ENS("[C04.signals-after-last-commit,C07.stop-signals-raised] filter and sink are told "  \
        "to stop exactly once each, after the last commit",                                   \
        sg.n_sig_filter == 1 && sg.n_sig_sink == 1)                                           \
    ENS("[C09.camera-stopped,C07.camera-stopped] the camera is stopped exactly once on "     \
        "every path", sg.n_cam_stop == 1)                                                     \
    ENS("[C07.flags-cleared,C09.flags-cleared] both thread flags are cleared on return",     \
        self->is_running == 0 && self->is_stopping == 0)                                      \
    ENS("[C09.failure-reported] the thread's exit code is 1 exactly after a camera failure",\
        RET == (sg.cam_failed ? 1 : 0))                                                       \
    ENS("[C02.single-writer,C07.no-write-left-mapped-unless-failed] a region is left "       \
        "mapped only by the failing iteration (it is never committed)",                       \
        IMPL(sg.pending, sg.cam_failed))                                                      \
    ENS("[C04.frame-context-intact] the controller's wiring is untouched", SRC_FRAME_OK(self)) \
    ASG()

/* ================================================================== harness */
void
h_video_source_thread(void)
{
    memset(&sg, 0, sizeof(sg));
    g_region_cap = nd_ulong();
    VASSUME(g_region_cap >= 1 && g_region_cap <= REGION_CAP);
#ifdef VERIF_NATIVE
    g_region = mmap(0, g_region_cap, PROT_READ | PROT_WRITE, MAP_PRIVATE | MAP_ANONYMOUS | MAP_NORESERVE, -1, 0);
    VASSUME(g_region != (uint8_t*)MAP_FAILED);
#else
    g_region = malloc(g_region_cap);
    VASSUME(g_region != 0);
#endif
    sg.cam_started = 1;
    sg.px = nd_ulong();
    g_max0 = nd_ulong();
    video_source_init(&g_src, nd_uchar(), g_max0, &g_to_sink, &g_to_filter,
                      cb_await_filter_reset, cb_sig_stop_filter, cb_sig_stop_sink);
    g_src.camera = g_cam;
    g_src.enable_filter = nd_uchar();
    g_src.is_stopping = nd_uchar();
    g_src.is_running = 1;
    struct video_source_s* self = &g_src;
    int ret;
    H_CALL(video_source_thread, ret = video_source_thread(self));
    VCOVER(sg.committed >= 1 && !sg.cam_failed && ret == 0, "normal end after committing frames");
    VCOVER(sg.cam_failed && sg.committed >= 1, "camera failure after some frames");
    VCOVER(sg.n_abort >= 1, "an empty frame is aborted");
    VCOVER(sg.n_await >= 1, "switch from the filter channel back to the sink channel");
    VCOVER(sg.committed == g_max0 && g_max0 >= 1, "stops at max_frame_count");
    H_END;
}
