/* C14/C16: contracts on the real /repo/acquire-driver-common/src/storage/raw.c
 * (#included unmodified) against stub contracts of the platform file functions (enforced
 * in contracts/platform) and of the StorageProperties operations (enforced in
 * contracts/props).  aq_logger is a no-op. */
#include "verif.h"
#include "device/props/storage.h"
#include "device/kit/storage.h"
#include "platform.h"

#include <stdlib.h>
#include <string.h>

void
aq_logger(int is_error, const char* file, int line, const char* function, const char* fmt, ...)
{
}

/* ------------------------------------------------------------------ ghost file system */
static struct raw_ghost
{
    int file_open;  /* the device's file is open                                      */
    int token;      /* descriptor number handed out by file_create                    */
    int n_create, n_close, n_write, n_writable;
    int create_fails, write_fails, copy_fails;
    size_t len;     /* ghost file length                                              */
    size_t o;       /* ghost file position                                            */
    int o_written;
    uint8_t o_byte;
    /* expected contents: the packets appended since the last start are contiguous from 0 */
    size_t appended; /* bytes successfully appended since the last successful start    */
    int o_expected_set;
    uint8_t o_expected; /* byte the ghost position must hold (if below `appended`)     */
    char created_path[32];
    size_t created_path_n;
    int props_inited, props_destroyed;
} r;

#define OWNED_FILE(f) (r.file_open && (f)->fid == r.token)

/* --- stub contracts of platform.c (contracts/platform enforces the real ones) */
int
file_create(struct file* file, const char* filename, size_t bytes_of_filename)
{
    VASSERT(file != 0 && filename != 0, "[C16.callsite] file_create arguments");
    VASSERT(!r.file_open, "[C16.closes-what-it-opens] a second file is created while the first is still open (descriptor leak)");
    r.n_create++;
    /* remember the path that was used (bounded copy for the URI clauses) */
    r.created_path_n = bytes_of_filename;
    if (bytes_of_filename <= sizeof(r.created_path))
        memcpy(r.created_path, filename, bytes_of_filename);
    if (r.create_fails || nd_bool()) {
        file->fid = nd_int(); /* -1, or the number of a descriptor that was closed again */
        return 0;
    }
    r.file_open = 1;
    file->fid = r.token;
    r.len = 0; /* C14.no-stale-tail of file_create */
    r.o_written = 0;
    return 1;
}

void
file_close(struct file* file)
{
    r.n_close++;
    VASSERT(file != 0 && OWNED_FILE(file),
            "[C16.only-own-descriptors,C16.closes-what-it-opens] file_close on a file that is not an open file of this device (never opened, or closed before)");
    r.file_open = 0;
}

int
file_write(const struct file* file, uint64_t offset, const uint8_t* beg, const uint8_t* end)
{
    r.n_write++;
    VASSERT(file != 0 && OWNED_FILE(file),
            "[C16.only-own-descriptors] file_write on a file that is not an open file of this device");
    VASSERT(beg != 0 && __CPROVER_same_object(beg, end) && beg <= end, "[C14.callsite] file_write range");
    size_t n = (size_t)(end - beg);
    int ok = !(r.write_fails || nd_bool());
    /* contract of file_write: success puts every byte at offset+index; failure may leave
     * a correct prefix */
    if (offset <= r.o && r.o < offset + n && (ok || nd_bool())) {
        r.o_written = 1;
        r.o_byte = beg[r.o - offset];
    }
    if (ok && offset + n > r.len)
        r.len = offset + n;
    return ok;
}

int
file_is_writable(const char* filename, size_t nbytes)
{
    r.n_writable++;
    return nd_bool();
}

/* --- stub contracts of props/storage.c (contracts/props enforces the real ones) */
int
storage_properties_init(struct StorageProperties* out,
                        uint32_t first_frame_id,
                        const char* uri,
                        size_t bytes_of_uri,
                        const char* metadata,
                        size_t bytes_of_metadata,
                        struct PixelScale pixel_scale_um,
                        uint8_t dimension_count)
{
    memset(out, 0, sizeof(*out));
    if (nd_bool())
        return 0;
    out->uri.str = malloc(bytes_of_uri);
    VASSUME(out->uri.str != 0);
    memcpy(out->uri.str, uri, bytes_of_uri);
    out->uri.nbytes = bytes_of_uri;
    out->uri.is_ref = 0;
    r.props_inited++;
    return 1;
}

#define URI_MAX 24
int
storage_properties_copy(struct StorageProperties* dst, const struct StorageProperties* src)
{
    VASSERT(dst != src, "[C13.callsite] no self copy");
    if (r.copy_fails || nd_bool())
        return 0;
    /* deep copy of the uri (the only string raw.c looks at); scalars copied */
    char* old = (dst->uri.str && !dst->uri.is_ref) ? dst->uri.str : 0;
    size_t n = (src->uri.str && src->uri.nbytes) ? src->uri.nbytes : 1;
    VASSUME(n <= URI_MAX);
    char* q = malloc(n);
    VASSUME(q != 0);
    if (src->uri.str && src->uri.nbytes)
        memcpy(q, src->uri.str, n);
    q[n - 1] = 0;
    if (old)
        free(old);
    dst->uri.str = q;
    dst->uri.nbytes = n;
    dst->uri.is_ref = 0;
    dst->first_frame_id = src->first_frame_id;
    dst->pixel_scale_um = src->pixel_scale_um;
    dst->enable_multiscale = src->enable_multiscale;
    return 1;
}

int
storage_properties_set_uri(struct StorageProperties* out, const char* uri, size_t bytes_of_uri)
{
    if (nd_bool() && !(out->uri.str && !out->uri.is_ref && out->uri.nbytes >= bytes_of_uri))
        return 0; /* may only fail when it has to allocate */
    size_t n = (uri && bytes_of_uri) ? bytes_of_uri : 1;
    VASSUME(n <= URI_MAX);
    char* q = malloc(n);
    VASSUME(q != 0);
    if (uri && bytes_of_uri)
        memcpy(q, uri, n);
    q[n - 1] = 0;
    if (out->uri.str && !out->uri.is_ref)
        free(out->uri.str);
    out->uri.str = q;
    out->uri.nbytes = n;
    out->uri.is_ref = 0;
    return 1;
}

void
storage_properties_destroy(struct StorageProperties* self)
{
    if (self->uri.str && !self->uri.is_ref)
        free(self->uri.str);
    memset(self, 0, sizeof(*self));
    r.props_destroyed++;
}

/* ================================================================== real code */
#include "storage/raw.c"

/* representation invariant of the device: it remembers exactly whether it owns an open
 * file */
#define RAW_RI(s) (IFF(r.file_open, (s)->is_open) && IMPL(r.file_open, (s)->file.fid == r.token))

static struct Raw* g_raw;
static size_t g_offset0;
static int g_open0;

#define CONTRACT_raw_start(REQ, ENS, ASG, FRE)                                                \
    REQ(self_ == &g_raw->writer && RAW_RI(g_raw) && !r.file_open)                             \
    REQ(g_raw->properties.uri.str != 0)                                                       \
    ENS("[C16.owns-what-it-opens] the device remembers exactly whether it owns an open file",\
        RAW_RI(g_raw))                                                                        \
    ENS("[C16.failure-is-reported] Running iff the file was created; a failed create "       \
        "leaves no file open and is reported",                                                \
        IFF(RET == DeviceState_Running, r.file_open) &&                                       \
          IMPL(RET != DeviceState_Running, RET == DeviceState_AwaitingConfiguration))         \
    ENS("[C14.offset-restarts] every acquisition writes from the beginning of its file",    \
        IMPL(RET == DeviceState_Running, g_raw->offset == 0 && r.len == 0))                   \
    ENS("[C14.file-is-the-stored-uri] the file created is the one named by the stored URI", \
        r.n_create == 1 && r.created_path_n == g_raw->properties.uri.nbytes)                  \
    ASG()

#define CONTRACT_raw_stop(REQ, ENS, ASG, FRE)                                                 \
    REQ(self_ == &g_raw->writer && RAW_RI(g_raw) && r.n_close == 0)                           \
    ENS("[C16.owns-what-it-opens] invariant kept", RAW_RI(g_raw))                             \
    ENS("[C16.closes-what-it-opens] an open file is closed exactly once, nothing else is "  \
        "closed",                                                                             \
        !r.file_open && r.n_close == (g_open0 ? 1 : 0))                                       \
    ENS("[C11.state-follows-driver] stop answers Armed", RET == DeviceState_Armed)            \
    ASG()

#define CONTRACT_raw_append(REQ, ENS, ASG, FRE)                                               \
    REQ(self_ == &g_raw->writer && RAW_RI(g_raw) && r.file_open && !r.o_written)              \
    REQ(frames != 0 && nbytes != 0 && __CPROVER_r_ok(frames, *nbytes) &&                      \
        *nbytes <= ((size_t)1 << 40) && g_raw->offset == g_offset0 &&                         \
        g_offset0 <= ((size_t)1 << 50))                                                       \
    ENS("[C16.owns-what-it-opens] invariant kept", RAW_RI(g_raw))                             \
    ENS("[C14.packet-lands-at-offset] success: the packet is in the file at "               \
        "[offset, offset + nbytes) and the offset advances by exactly nbytes",                \
        IMPL(RET == DeviceState_Running,                                                      \
             *nbytes == g_n0 && g_raw->offset == g_offset0 + g_n0 && r.file_open &&           \
               IMPL(g_offset0 <= r.o && r.o < g_offset0 + g_n0,                               \
                    r.o_written && r.o_byte == ((const uint8_t*)frames)[r.o - g_offset0])))   \
    ENS("[C16.failure-is-reported,C09.append-failure-reported] a failed write leaves the "  \
        "running state no later than the end of this append, consumes nothing and closes "    \
        "the file exactly once",                                                              \
        IMPL(r.n_write >= 1 && RET != DeviceState_Running,                                    \
             *nbytes == 0 && !r.file_open && r.n_close == 1 && g_raw->offset == g_offset0))   \
    ENS("[C16.bounded-work] one write attempt per append", r.n_write == 1)                   \
    ASG()
static size_t g_n0;

#define CONTRACT_raw_destroy(REQ, ENS, ASG, FRE)                                              \
    REQ(writer_ == &g_raw->writer && RAW_RI(g_raw) && r.n_close == 0)                         \
    ENS("[C16.closes-what-it-opens] destroy closes an open file exactly once and nothing "  \
        "it does not own (never-started device, or already stopped)",                         \
        !r.file_open && r.n_close == (g_open0 ? 1 : 0))                                       \
    ENS("[C13.released-once] the properties are destroyed once", r.props_destroyed == 1)     \
    ASG()

#define CONTRACT_raw_init(REQ, ENS, ASG, FRE)                                                 \
    REQ(!r.file_open)                                                                         \
    ENS("[C16.owns-what-it-opens] a new device owns no file and knows it",                  \
        IMPL(RET != 0, RAW_RI(containerof(RET, struct Raw, writer)) &&                        \
                         RET->state == DeviceState_AwaitingConfiguration && r.n_create == 0)) \
    ASG()

static char g_uri_in[URI_MAX];
static size_t g_uri_n;
static int g_has_prefix;
#define CONTRACT_raw_set(REQ, ENS, ASG, FRE)                                                  \
    REQ(self_ == &g_raw->writer && RAW_RI(g_raw) && properties != 0)                          \
    ENS("[C16.owns-what-it-opens] invariant kept; set opens and closes nothing",            \
        RAW_RI(g_raw) && r.n_create == 0 && r.n_close == 0)                                   \
    ENS("[C14.uri-stored-plain] Armed: the stored URI is the path without a file:// "       \
        "prefix, NUL-terminated, with a consistent length",                                   \
        IMPL(RET == DeviceState_Armed,                                                        \
             g_raw->properties.uri.str != 0 &&                                                \
               g_raw->properties.uri.nbytes == g_uri_n - (g_has_prefix ? 7 : 0) &&            \
               g_raw->properties.uri.str[g_raw->properties.uri.nbytes - 1] == 0 &&            \
               (g_uri_k >= g_raw->properties.uri.nbytes ||                                    \
                g_raw->properties.uri.str[g_uri_k] == g_uri_in[g_uri_k + (g_has_prefix ? 7 : 0)]))) \
    ENS("[C11.state-follows-driver] anything else is AwaitingConfiguration",                 \
        RET == DeviceState_Armed || RET == DeviceState_AwaitingConfiguration)                 \
    ASG()
static size_t g_uri_k;

/* ================================================================== harnesses */
static void
ghost_reset(void)
{
    memset(&r, 0, sizeof(r));
    r.token = nd_int();
    VASSUME(r.token >= 0); /* descriptor 0 included */
    r.o = nd_ulong();
    r.create_fails = nd_bool();
    r.write_fails = nd_bool();
    r.copy_fails = nd_bool();
}

/* an arbitrary raw device satisfying the invariant */
static struct Storage*
arb_raw(void)
{
    ghost_reset();
    struct Storage* s = raw_init();
    VASSUME(s != 0);
    g_raw = containerof(s, struct Raw, writer);
    r.file_open = nd_bool();
    g_raw->is_open = r.file_open;
    g_raw->file.fid = r.file_open ? r.token : nd_int();
    g_raw->offset = nd_ulong();
    g_raw->writer.state = (enum DeviceState)(nd_uchar() % DeviceStateCount);
    g_offset0 = g_raw->offset;
    g_open0 = r.file_open;
    r.n_create = 0;
    return s;
}

void
h_raw_init(void)
{
    ghost_reset();
    struct Storage* ret;
    H_CALL(raw_init, ret = raw_init());
    VCOVER(ret != 0, "init succeeds");
    VCOVER(ret == 0, "init fails");
    H_END;
}

void
h_raw_start(void)
{
    struct Storage* self_ = arb_raw();
    VASSUME(!r.file_open);
    enum DeviceState ret;
    H_CALL(raw_start, ret = raw_start(self_));
    VCOVER(ret == DeviceState_Running && g_offset0 > 0, "restart after an earlier acquisition");
    VCOVER(ret != DeviceState_Running, "create fails");
    H_END;
}

void
h_raw_stop(void)
{
    struct Storage* self_ = arb_raw();
    enum DeviceState ret;
    H_CALL(raw_stop, ret = raw_stop(self_));
    VCOVER(g_open0, "stop a started device");
    VCOVER(!g_open0, "stop a device that was never started or already stopped");
    H_END;
}

void
h_raw_append(void)
{
    struct Storage* self_ = arb_raw();
    VASSUME(r.file_open);
    size_t n = nd_ulong();
    VASSUME(n <= ((size_t)1 << 40));
#ifdef VERIF_NATIVE
    VASSUME(n <= (1UL << 24));
#endif
    VASSUME(g_raw->offset <= ((size_t)1 << 50));
    uint8_t* buf = malloc(n ? n : 1);
    VASSUME(buf != 0);
    const struct VideoFrame* frames = (const struct VideoFrame*)buf;
    size_t nb = n;
    size_t* nbytes = &nb;
    g_n0 = n;
    enum DeviceState ret;
    H_CALL(raw_append, ret = raw_append(self_, frames, nbytes));
    VCOVER(ret == DeviceState_Running && n > 0 && g_offset0 > 0, "append behind earlier packets");
    VCOVER(ret != DeviceState_Running, "write fails");
    H_END;
}

void
h_raw_destroy(void)
{
    struct Storage* writer_ = arb_raw();
    H_CALL(raw_destroy, raw_destroy(writer_));
    VCOVER(g_open0, "destroy while running");
    VCOVER(!g_open0, "destroy a device that is not started");
    H_END;
}

void
h_raw_set(void)
{
    struct Storage* self_ = arb_raw();
    struct StorageProperties p;
    memset(&p, 0, sizeof(p));
    /* an arbitrary NUL-terminated uri of up to URI_MAX bytes, plain or file:// */
    g_uri_n = nd_ulong();
    VASSUME(g_uri_n >= 1 && g_uri_n <= URI_MAX);
    for (unsigned i = 0; i < URI_MAX; ++i)
        g_uri_in[i] = (char)(nd_uchar() & 0x7f);
    g_uri_in[g_uri_n - 1] = 0;
    for (unsigned i = 0; i + 1 < URI_MAX; ++i)
        VASSUME(i + 1 >= g_uri_n || g_uri_in[i] != 0); /* strlen + 1 == nbytes */
    g_has_prefix = g_uri_n - 1 >= 7 && g_uri_in[0] == 'f' && g_uri_in[1] == 'i' && g_uri_in[2] == 'l' &&
                   g_uri_in[3] == 'e' && g_uri_in[4] == ':' && g_uri_in[5] == '/' && g_uri_in[6] == '/';
    g_uri_k = nd_ulong();
    VASSUME(g_uri_k < URI_MAX);
    p.uri.str = nd_bool() ? &g_uri_in[0] : (char*)0;
    p.uri.nbytes = nd_bool() ? g_uri_n : 0;
    p.uri.is_ref = 1;
    const struct StorageProperties* properties = &p;
    enum DeviceState ret;
    H_CALL(raw_set, ret = raw_set(self_, properties));
    VCOVER(ret == DeviceState_Armed && g_has_prefix, "file:// uri accepted");
    VCOVER(ret == DeviceState_Armed && !g_has_prefix && g_uri_n > 8, "plain uri accepted");
    VCOVER(ret != DeviceState_Armed && p.uri.str && p.uri.nbytes, "not writable or copy fails");
    H_END;
}

/* Life-cycle histories from a fresh device, with the real functions throughout: they need
 * no knowledge of the device's representation, only the ghost descriptor ownership. */
void
h_raw_lifecycle(void)
{
    ghost_reset();
    struct Storage* s = raw_init();
    VASSUME(s != 0);
    size_t nb = 8;
    static uint64_t packet[1];
    unsigned steps = 0;
    /* any history of up to 5 driver calls, then close */
#ifndef LIFECYCLE_STEPS
#define LIFECYCLE_STEPS 5
#endif
    for (; steps < LIFECYCLE_STEPS; ++steps) {
        unsigned op = nd_uchar() % 4;
        if (op == 0) {
            if (s->state == DeviceState_Armed || s->state == DeviceState_AwaitingConfiguration)
                s->state = s->start(s);
        } else if (op == 1) {
            if (s->state == DeviceState_Running)
                s->state = s->stop(s);
        } else if (op == 2) {
            if (s->state == DeviceState_Running) {
                nb = 8;
                s->state = s->append(s, (const struct VideoFrame*)packet, &nb);
            }
        } else {
            break;
        }
    }
    int was_open = r.file_open;
    s->destroy(s);
    VASSERT(!r.file_open, "[C16.closes-what-it-opens] after close no file of the device is left open");
    VCOVER(was_open, "closed while running");
    VCOVER(steps == 0, "closed without ever starting");
    H_END;
}
