#!/bin/sh
# usage: run.sh [repo-root]   (default /repo)
R=${1:-/repo}; L=$R/acquire-core-libs/src; V=$R/acquire-video-runtime/src
gcc -O1 -w -DNO_UNIT_TESTS -I$V -I$V/runtime -I$L/acquire-core-logger -I$L/acquire-core-platform/linux -I$L/acquire-device-properties -I$L/acquire-device-kit -I$L/acquire-device-hal \
  "$(dirname "$0")/sink_leftovers.c" $V/runtime/sink.c $V/runtime/channel.c $V/runtime/vfslice.c $V/runtime/throttler.c $L/acquire-core-platform/linux/platform.c $L/acquire-core-logger/logger.c $L/acquire-device-properties/device/props/device.c \
  -lpthread -ldl -o /var/tmp/sink_leftovers && /var/tmp/sink_leftovers; rc=$?; rm -f /var/tmp/sink_leftovers; exit $rc
