"""./check <Cxx> [--tier quick|thorough] [--replay FILE] [--unit NAME] [--list]"""
import argparse
import concurrent.futures
import json
import os
import re
import subprocess
import sys
import time

import core

PROPS = {}
for _l in open(os.path.join(core.VERIF, "properties.jsonl")):
    _p = json.loads(_l)
    PROPS[_p["id"]] = _p

TRUSTED_COMMON = [
    "CBMC 6.11 front end, DFCC contract instrumentation and SAT back end (MiniSat); goto-cc C semantics taken to agree with gcc 12 / x86-64",
    "aq_logger replaced by a no-op (arguments still evaluated)",
    "induction from per-operation contracts to all finite histories (paper argument, DESIGN sec. 1 and 4)",
]


def load_known():
    p = os.path.join(core.VERIF, "known_findings.json")
    if not os.path.exists(p):
        return {"findings": [], "fixed": []}
    return json.load(open(p))


def known_match(known, prop, unit, ob):
    for k in known.get("findings", []):
        if k["property"] != prop:
            continue
        if k.get("unit") and k["unit"] != unit["name"]:
            continue
        if k.get("tag") and k["tag"] not in ob["tags"]:
            continue
        if k.get("obligation") and k["obligation"] != ob["id"]:
            continue
        if k.get("desc_contains") and k["desc_contains"] not in ob["desc"]:
            continue
        return k
    return None


def attributed(ob, prop, unit):
    if ob["kind"] in ("cover", "excluded"):
        return False
    if ob["kind"] == "safety":
        return True
    if "UNMAPPED" in ob["tags"]:
        return True
    if any(t.startswith(prop + ".") for t in ob["tags"]):
        return True
    if prop in unit.get("dep_props", []):
        return True
    # a clause tagged only for properties this unit is not registered for (typically the
    # call-site precondition of a callee that belongs to another component) is still a
    # verification condition of this unit: it counts for every property the unit serves
    listed = set(unit.get("props", [])) | set(unit.get("dep_props", []))
    tagged_for = {t.split(".")[0] for t in ob["tags"] if t[:1] == "C" and "." in t}
    if tagged_for and not (tagged_for & listed):
        return True
    return False


def select_units(units, prop, tier, only=None):
    sel = []
    for u in units.values():
        if only and u["name"] != only:
            continue
        if prop not in u["props"] and prop not in u.get("dep_props", []):
            continue
        if tier == "quick" and u["tier"] != "quick":
            continue
        sel.append(u)
    return sel


def do_replay(path):
    rec = json.load(open(path))
    units = core.load_units()
    unit = units.get(rec["unit"])
    if not unit:
        print("replay: unknown unit", rec["unit"])
        return 2
    ob = {"id": rec["obligation"], "tags": [rec["tag"]], "desc": rec["description"],
          "kind": "tagged" if rec["tag"] != "safety" else "safety", "nd_script": rec.get("nd_script"),
          "file": rec["source"].get("file"), "line": rec["source"].get("line"),
          "function": rec["source"].get("function"), "trace_tail": rec.get("cbmc_trace_tail")}
    outdir = os.path.join(core.EVID, "replay")
    p, rep = core.replay_failure(unit, ob, rec["property"], outdir)
    r2 = json.load(open(p))
    print((r2.get("native") or {}).get("output", ""))
    print("replay of %s on the real code: %s" % (rec["obligation"], "REPRODUCED" if rep else "not reproduced"))
    return 1 if rep else 0


def run_seeded_mutants(prop):
    """Thorough tier: every stored seeded change that breaks this property is applied to a
    scratch copy of /repo (outside /repo and /verif, removed afterwards) and the quick check
    is run against that copy; it must report a violation."""
    import shutil
    import subprocess
    import tempfile
    out = []
    sd = os.path.join(core.VERIF, "seeded")
    if not os.path.isdir(sd):
        return out
    for name in sorted(os.listdir(sd)):
        mp = os.path.join(sd, name, "meta.json")
        pp = os.path.join(sd, name, "patch.diff")
        if not (os.path.exists(mp) and os.path.exists(pp)):
            continue
        meta = json.load(open(mp))
        if prop != meta.get("property") and prop not in meta.get("also_breaks", []):
            continue
        scratch = tempfile.mkdtemp(prefix="vm_", dir=os.environ.get("VERIF_SCRATCH", "/var/tmp"))
        try:
            subprocess.run(["rsync", "-a", "--exclude", "_build", "--exclude", ".git", core.REPO + "/", scratch + "/"], check=True)
            r = subprocess.run(["git", "apply", "--unsafe-paths", "--directory", scratch, pp], capture_output=True, text=True, cwd="/")
            if r.returncode != 0:
                r = subprocess.run(["patch", "-p1", "-d", scratch, "-i", pp], capture_output=True, text=True)
            if r.returncode != 0:
                out.append({"id": name, "killed": False, "tail": "patch does not apply: " + (r.stdout + r.stderr)[-300:]})
                continue
            env = dict(os.environ)
            env["VERIF_REPO"] = scratch
            env["VERIF_IN_MUTANT"] = "1"
            r = subprocess.run([os.path.join(core.VERIF, "check"), prop, "--tier", "quick", "--no-evidence"],
                               capture_output=True, text=True, env=env)
            viol = [l for l in r.stdout.split("\n") if l.startswith("VIOLATION")]
            out.append({"id": name, "killed": r.returncode == 1 and bool(viol), "exit": r.returncode,
                        "violations": len(viol), "tail": r.stdout[-600:]})
        finally:
            shutil.rmtree(scratch, ignore_errors=True)
    return out


def run_benign_refactorings(prop):
    """Thorough tier: behaviour-preserving refactorings (/verif/benign) applied to a scratch
    copy of /repo; the quick check of the property must stay quiet (exit 0) on each."""
    import shutil
    import subprocess
    import tempfile
    out = []
    bd = os.path.join(core.VERIF, "benign")
    if not os.path.isdir(bd):
        return out
    for name in sorted(os.listdir(bd)):
        mp = os.path.join(bd, name, "meta.json")
        pp = os.path.join(bd, name, "patch.diff")
        if not (os.path.exists(mp) and os.path.exists(pp)):
            continue
        if prop not in json.load(open(mp)).get("props", []):
            continue
        scratch = tempfile.mkdtemp(prefix="vb_", dir=os.environ.get("VERIF_SCRATCH", "/var/tmp"))
        try:
            subprocess.run(["rsync", "-a", "--exclude", "_build", "--exclude", ".git", core.REPO + "/", scratch + "/"], check=True)
            r = subprocess.run(["git", "apply", "--unsafe-paths", "--directory", scratch, pp], capture_output=True, text=True, cwd="/")
            if r.returncode != 0:
                out.append({"id": name, "quiet": None, "tail": "patch does not apply (tree has moved on): " + (r.stdout + r.stderr)[-300:]})
                continue
            env = dict(os.environ)
            env["VERIF_REPO"] = scratch
            env["VERIF_IN_MUTANT"] = "1"
            r = subprocess.run([os.path.join(core.VERIF, "check"), prop, "--tier", "quick", "--no-evidence"],
                               capture_output=True, text=True, env=env)
            out.append({"id": name, "quiet": r.returncode == 0, "exit": r.returncode, "tail": r.stdout[-400:]})
        finally:
            shutil.rmtree(scratch, ignore_errors=True)
    return out


def main(argv):
    ap = argparse.ArgumentParser()
    ap.add_argument("prop", nargs="?")
    ap.add_argument("--tier", default=os.environ.get("VERIF_TIER", "quick"))
    ap.add_argument("--replay")
    ap.add_argument("--unit")
    ap.add_argument("--list", action="store_true")
    ap.add_argument("--jobs", type=int, default=int(os.environ.get("VERIF_JOBS", "16")))
    ap.add_argument("--no-evidence", action="store_true")
    a = ap.parse_args(argv)
    if a.replay:
        return do_replay(a.replay)
    try:
        units = core.load_units()
    except Exception as e:
        print("TOOLING: cannot load units: %s" % e)
        return 2
    if a.list:
        for u in units.values():
            print(u["name"], u["tier"], ",".join(u["props"]), u.get("enforce") or "-", "bounded" if u["bounded"] else "")
        return 0
    prop = a.prop
    if prop not in PROPS:
        print("unknown property", prop)
        return 2
    tier = "thorough" if a.tier == "thorough" else "quick"
    seed = int(os.environ.get("VERIF_SEED", "0") or 0)
    t0 = time.time()
    sel = select_units(units, prop, tier, a.unit)
    if not sel:
        print("TOOLING: no units registered for %s" % prop)
        return 2
    use_cache = os.environ.get("VERIF_NOCACHE", "") != "1"
    results = {}
    with concurrent.futures.ThreadPoolExecutor(max_workers=a.jobs) as ex:
        futs = {ex.submit(core.verify_unit, u, use_cache): u for u in sel}
        for f in concurrent.futures.as_completed(futs):
            u = futs[f]
            results[u["name"]] = f.result()
    if os.environ.get("VERIF_TIMES"):
        for n, r in sorted(results.items(), key=lambda kv: -(kv[1].get("solver_s") or 0))[:12]:
            print("TIME %-40s solver=%.1fs wall=%.1fs cached=%s" % (n, r.get("solver_s") or 0, r.get("wall") or 0, r.get("cached")))
    known = load_known()
    violations = []
    known_hits = []
    tooling = []
    n_obl = n_dis = 0
    bounded = []
    unit_rows = []
    samples = []
    covers = 0
    fns = set()
    assumptions = set()
    for u in sel:
        r = results[u["name"]]
        row = {"unit": u["name"], "status": r["status"], "function_under_contract": u.get("enforce"),
               "callees_replaced_by_contract": u["replace"], "loop_contracts": bool(u["loops"]),
               "backend": "native exhaustive enumeration (gcc -O2 on the repo code; not CBMC)" if u.get("native") else ("cbmc-6.11 SAT (minisat)" if not u["solver"] else "cbmc-6.11 " + u["solver"]),
               "solver_s": r.get("solver_s"), "wall_s": r.get("wall"), "cached_result": r.get("cached", False),
               "unwind": u["unwind"], "bounded": u["bounded"], "obligations": 0, "discharged": 0}
        for a_ in u["assumes"]:
            assumptions.add(a_)
        if r["status"] == "tooling":
            tooling.append((u, r))
            row["reason"] = r["reason"][:400]
            unit_rows.append(row)
            continue
        for f_ in ([u["enforce"]] if u.get("enforce") else []) + u["functions"]:
            if not u["bounded"]:
                fns.add(f_)
        mine = [o for o in r["obligations"] if attributed(o, prop, u)]
        # obligations that fail as LISTED findings (known_findings.json) are reported on their
        # own (KNOWN-FINDING lines, coverage.known_findings_hit) and are not part of the
        # obligations/discharged pair, which counts what this run claims to have proved
        listed = [o for o in mine if o["status"] == "FAILURE" and known_match(known, prop, u, o)]
        for o in listed:
            known_hits.append((known_match(known, prop, u, o), u, o))
        mine = [o for o in mine if not any(o is x for x in listed)]
        row["listed_finding_obligations"] = len(listed)
        row["obligations"] = len(mine)
        row["discharged"] = sum(1 for o in mine if o["status"] == "SUCCESS")
        row["all_obligations_of_unit"] = sum(1 for o in r["obligations"] if o["kind"] not in ("cover", "excluded"))
        row["excluded_null_pointer_relations"] = sum(1 for o in r["obligations"] if o["kind"] == "excluded")
        cov = [o for o in r["obligations"] if o["kind"] == "cover"]
        row["covers_reached"] = len(cov)
        covers += len(cov)
        if u["bounded"]:
            bounded.append({"unit": u["name"], "bound": u["bounded"], "obligations": row["obligations"],
                            "discharged": row["discharged"]})
        else:
            n_obl += row["obligations"]
            n_dis += row["discharged"]
        for o in mine:
            if o["kind"] == "tagged" and len(samples) < 12 and any(t.startswith(prop) for t in o["tags"]):
                samples.append({"unit": u["name"], "obligation": o["id"], "tags": o["tags"],
                                "text": o["desc"][:160], "status": o["status"]})
        for o in mine:
            if o["status"] not in ("SUCCESS", "FAILURE"):
                row.setdefault("undecided_after_failure", 0)
                row["undecided_after_failure"] += 1
        for o in mine:
            if o["status"] == "FAILURE":
                violations.append((u, o))
        unit_rows.append(row)
    printed = set()
    for k, u, o in known_hits:
        line = "KNOWN-FINDING: property=%s %s %s" % (prop, (k.get("tag") or o["id"]), k["what"])
        if line not in printed:
            printed.add(line)
            print(line)
    rc = 0
    vio_lines = []
    seen = set()
    for u, o in violations:
        key = (u["name"], tuple(o["tags"]), o["desc"]) if o["kind"] == "tagged" else (u["name"], o.get("function"), o.get("line"))
        if key in seen:
            continue
        seen.add(key)
        path, rep = core.replay_failure(u, o, prop, os.path.join(core.EVID, "replay"))
        line = "VIOLATION property=%s replay=%s" % (prop, path)
        info = "  # unit=%s obligation=%s %s" % (u["name"], o["id"], o["desc"][:140])
        print(info)
        if not rep:
            line += " no-failing-input-found"
        print(line)
        vio_lines.append(line)
        rc = 1
    if tooling:
        for u, r in tooling:
            print("TOOLING: unit=%s %s" % (u["name"], r["reason"][:1500]))
        if rc == 0:
            rc = 2
    mutants = []
    if tier == "thorough" and not a.unit and rc == 0 and os.environ.get("VERIF_IN_MUTANT") != "1":
        mutants = run_seeded_mutants(prop)
        for m in mutants:
            if not m["killed"]:
                print("TOOLING: seeded change %s (breaks %s) is NOT detected by this check: %s" % (m["id"], prop, m["tail"][-300:]))
                rc = 2
    benign = []
    if tier == "thorough" and not a.unit and rc == 0 and os.environ.get("VERIF_IN_MUTANT") != "1":
        benign = run_benign_refactorings(prop)
        for b in benign:
            if b["quiet"] is False:
                print("TOOLING: this check is not quiet (exit %s) on the behaviour-preserving refactoring %s: %s" % (b.get("exit"), b["id"], b["tail"][-300:]))
                rc = 2
    wall = time.time() - t0
    if not a.no_evidence and not a.unit:
        checker = "goto-cc <harness including the real /repo .c> | goto-instrument --dfcc <entry> --enforce-contract <fn> [--replace-call-with-contract g] [--loop-contracts-file L --apply-loop-contracts] | cbmc --json-ui " + " ".join(core.DEFAULT_CBMC_FLAGS) + " --unwind N --unwinding-assertions (see units[].)"
        level = json.load(open(os.path.join(core.VERIF, "MANIFEST.json")))
        lvl = "proof"
        for c in level.get("checks", []):
            if c["property_id"] == prop:
                lvl = c["level_claimed"]["category"]
        ev = {
            "property_id": prop, "tier": tier, "seed": seed, "level": lvl,
            "coverage": {
                "obligations": n_obl, "discharged": n_dis,
                "checker_cmd": checker,
                "trusted_base": TRUSTED_COMMON + sorted(assumptions),
                "functions_under_contract": sorted(fns),
                "units": unit_rows,
                "bounded": bounded,
                "covers_reached": covers,
                "samples": samples,
                "evaluations": n_obl + sum(b["obligations"] for b in bounded),
                "distinct_nontrivial": len({(s["unit"], s["obligation"]) for s in samples}) if samples else 0,
                "rule": "one evaluation = one CBMC proof obligation of a unit attributed to this property (tagged postconditions/assertions plus memory-safety, frame and unwinding obligations); distinct_nontrivial counts the distinct tagged obligations listed in samples",
                "not_decided": next((c.get("level_note", "") for c in level.get("checks", []) if c["property_id"] == prop), ""),
                "known_findings_hit": [{"tag": k.get("tag"), "what": k["what"]} for k, u, o in known_hits],
                "tooling_errors": [{"unit": u["name"], "reason": r["reason"][:300]} for u, r in tooling],
                "tool_versions": core.tv(),
                "seeded_mutants": mutants,
                "mutants_killed": sum(1 for m in mutants if m["killed"]),
                "mutants_total": len(mutants),
                "benign_refactorings": benign,
                "benign_quiet": sum(1 for b in benign if b["quiet"]),
            },
            "assumptions": TRUSTED_COMMON + sorted(assumptions),
            "wall_s": round(wall, 2),
            "violations": len(vio_lines),
        }
        os.makedirs(core.EVID, exist_ok=True)
        json.dump(ev, open(os.path.join(core.EVID, prop + ".json"), "w"), indent=1)
    print("%s tier=%s units=%d obligations=%d discharged=%d bounded_units=%d covers=%d wall=%.1fs -> exit %d" %
          (prop, tier, len(sel), n_obl, n_dis, len(bounded), covers, wall, rc))
    return rc
